// Package ev is the reporting side of every check: counters, distinct outcomes,
// samples, violations with signatures, the known-findings file, the evidence file
// and the exit code.  See DESIGN.md §3.8.
package ev

import (
	"crypto/sha256"
	"encoding/hex"
	"encoding/json"
	"fmt"
	"os"
	"path/filepath"
	"regexp"
	"sort"
	"strconv"
	"strings"
	"sync"
	"time"
)

// Root of the verification tree; VERIF_ROOT overrides (tests).
func Root() string {
	if r := os.Getenv("VERIF_ROOT"); r != "" {
		return r
	}
	return "/verif"
}

// Violation is one counterexample.  Signature identifies the defect (property, oracle
// clause, trigger shape); Detail is the replayable artefact.
type Violation struct {
	Signature string `json:"signature"`
	What      string `json:"what"`
	Detail    any    `json:"detail,omitempty"`
}

type Run struct {
	ID    string
	Tier  string
	Level string
	Seed  int64
	start time.Time

	mu          sync.Mutex
	Evaluations int64
	States      int64
	Transitions int64
	Traces      int64
	outcomes    map[string]struct{}
	samples     []any
	maxSamples  int
	violations  map[string]*Violation
	vioCount    map[string]int
	Rule        string
	Exhaustive  bool
	Bounds      map[string]any
	Assumptions []string
	Extra       map[string]any
	notes       []string
}

func New(id, level string) *Run {
	tier := os.Getenv("VERIF_TIER")
	if tier != "thorough" {
		tier = "quick"
	}
	seed, _ := strconv.ParseInt(os.Getenv("VERIF_SEED"), 10, 64)
	return &Run{ID: id, Tier: tier, Level: level, Seed: seed, start: time.Now(),
		outcomes: map[string]struct{}{}, violations: map[string]*Violation{}, vioCount: map[string]int{},
		maxSamples: 6, Exhaustive: true, Bounds: map[string]any{}, Extra: map[string]any{}}
}

func (r *Run) Thorough() bool { return r.Tier == "thorough" }

// Eval counts n evaluated cases.
func (r *Run) Eval(n int) {
	r.mu.Lock()
	r.Evaluations += int64(n)
	r.mu.Unlock()
}

// Outcome records an observed outcome class (distinct_nontrivial counts distinct ones).
func (r *Run) Outcome(s string) {
	r.mu.Lock()
	if len(s) > 96 {
		h := sha256.Sum256([]byte(s))
		s = hex.EncodeToString(h[:12])
	}
	r.outcomes[s] = struct{}{}
	r.mu.Unlock()
}

func (r *Run) Outcomes() int {
	r.mu.Lock()
	defer r.mu.Unlock()
	return len(r.outcomes)
}

// Sample keeps up to maxSamples actual cases for the evidence file.
func (r *Run) Sample(s any) {
	r.mu.Lock()
	if len(r.samples) < r.maxSamples {
		r.samples = append(r.samples, s)
	}
	r.mu.Unlock()
}

func (r *Run) WantSample() bool {
	r.mu.Lock()
	defer r.mu.Unlock()
	return len(r.samples) < r.maxSamples
}

func (r *Run) AddStates(s, t, traces int64) {
	r.mu.Lock()
	r.States += s
	r.Transitions += t
	r.Traces += traces
	r.mu.Unlock()
}

func (r *Run) Note(format string, a ...any) {
	r.mu.Lock()
	r.notes = append(r.notes, fmt.Sprintf(format, a...))
	r.mu.Unlock()
}

func (r *Run) Assume(s ...string) { r.Assumptions = append(r.Assumptions, s...) }

// NotExhaustive marks the run as capped (time or bound) with the reason.
func (r *Run) NotExhaustive(why string) {
	r.mu.Lock()
	r.Exhaustive = false
	r.notes = append(r.notes, "not exhaustive: "+why)
	r.mu.Unlock()
}

// Violate records a violation; the first occurrence per signature keeps its detail.
func (r *Run) Violate(sig, what string, detail any) {
	sig = r.ID + "/" + sig
	r.mu.Lock()
	defer r.mu.Unlock()
	r.vioCount[sig]++
	if _, ok := r.violations[sig]; !ok {
		r.violations[sig] = &Violation{Signature: sig, What: what, Detail: detail}
	}
}

func (r *Run) ViolationCount() int {
	r.mu.Lock()
	defer r.mu.Unlock()
	return len(r.violations)
}

var (
	reHex  = regexp.MustCompile(`0x[0-9a-fA-F]+`)
	reNum  = regexp.MustCompile(`\b\d+\b`)
	reAddr = regexp.MustCompile(`\(\*?[a-zA-Z0-9_./]+\)\(0x[0-9a-f]+\)`)
)

// Normalize replaces numbers and addresses in panic texts by placeholders so that a
// signature is stable across runs.
func Normalize(s string) string {
	s = reAddr.ReplaceAllString(s, "PTR")
	s = reHex.ReplaceAllString(s, "H")
	s = reNum.ReplaceAllString(s, "N")
	if len(s) > 160 {
		s = s[:160]
	}
	return s
}

// Known findings ---------------------------------------------------------------

type Finding struct {
	Property  string `json:"property"`
	Signature string `json:"signature"`
	Status    string `json:"status"` // "known" or "fixed"
	Commit    string `json:"commit,omitempty"`
	What      string `json:"what"`
	Trigger   any    `json:"trigger,omitempty"`
}

func loadFindings() []Finding {
	var fs []Finding
	b, err := os.ReadFile(filepath.Join(Root(), "known_findings.json"))
	if err != nil {
		return nil
	}
	if err := json.Unmarshal(b, &fs); err != nil {
		fmt.Fprintf(os.Stderr, "known_findings.json unreadable: %v\n", err)
		os.Exit(2)
	}
	return fs
}

// Finish writes replays and the evidence file, prints the verdict lines and returns
// the exit code (0 held / only known findings, 1 new violation).
func (r *Run) Finish() int {
	r.drainPanics()
	known := map[string]Finding{}
	for _, f := range loadFindings() {
		if f.Status == "known" && f.Property == r.ID {
			known[f.Signature] = f
		}
	}
	sigs := make([]string, 0, len(r.violations))
	for s := range r.violations {
		sigs = append(sigs, s)
	}
	sort.Strings(sigs)
	newV := 0
	var knownHit []string
	replayDir := filepath.Join(Root(), "replays", r.ID)
	if d := os.Getenv("VERIF_REPLAYS"); d != "" {
		replayDir = filepath.Join(d, r.ID) // runs against a scratch copy keep /verif/replays untouched
	}
	// replay files describe this run only: drop what an earlier run left behind
	if old, _ := filepath.Glob(filepath.Join(replayDir, "*.json")); len(old) > 0 {
		for _, f := range old {
			os.Remove(f)
		}
	}
	for _, s := range sigs {
		v := r.violations[s]
		if f, ok := known[s]; ok {
			fmt.Printf("KNOWN-FINDING: property=%s %s — %s (seen %d×)\n", r.ID, s, f.What, r.vioCount[s])
			knownHit = append(knownHit, s)
			continue
		}
		newV++
		os.MkdirAll(replayDir, 0o755)
		h := sha256.Sum256([]byte(s))
		name := sanitize(s) + "-" + hex.EncodeToString(h[:4]) + ".json"
		path := filepath.Join(replayDir, name)
		b, _ := json.MarshalIndent(map[string]any{"property": r.ID, "signature": s, "what": v.What,
			"count": r.vioCount[s], "detail": v.Detail}, "", " ")
		os.WriteFile(path, b, 0o644)
		fmt.Printf("VIOLATION property=%s replay=%s\n", r.ID, path)
		fmt.Printf("  signature=%s\n  what=%s\n", s, oneLine(v.What))
	}
	wall := time.Since(r.start).Seconds()
	cov := map[string]any{
		"evaluations":         r.Evaluations,
		"distinct_nontrivial": len(r.outcomes),
		"rule":                r.Rule,
		"samples":             r.samples,
		"exhaustive":          r.Exhaustive,
		"bounds":              r.Bounds,
	}
	if r.Level == "model_checking" {
		cov["states"] = r.States
		cov["transitions"] = r.Transitions
		cov["traces_validated_against_impl"] = r.Traces
	}
	if len(r.notes) > 0 {
		cov["notes"] = r.notes
	}
	if len(knownHit) > 0 {
		cov["known_findings_reproduced"] = knownHit
	}
	for k, v := range r.Extra {
		cov[k] = v
	}
	if len(r.samples) == 0 {
		cov["samples"] = []any{"(none recorded)"}
	}
	evd := map[string]any{
		"property_id": r.ID, "tier": r.Tier, "seed": r.Seed, "level": r.Level,
		"coverage": cov, "assumptions": r.Assumptions, "wall_s": wall, "violations": newV,
	}
	if r.Assumptions == nil {
		evd["assumptions"] = []string{}
	}
	b, _ := json.MarshalIndent(evd, "", " ")
	evPath := os.Getenv("VERIF_EVIDENCE")
	if evPath == "" {
		evPath = filepath.Join(Root(), "evidence", r.ID+".json")
	}
	os.MkdirAll(filepath.Dir(evPath), 0o755)
	if err := os.WriteFile(evPath, append(b, '\n'), 0o644); err != nil {
		fmt.Fprintf(os.Stderr, "cannot write evidence: %v\n", err)
		return 2
	}
	fmt.Printf("%s %s: evaluations=%d states=%d transitions=%d distinct=%d exhaustive=%v known=%d new=%d wall=%.1fs\n",
		r.ID, r.Tier, r.Evaluations, r.States, r.Transitions, len(r.outcomes), r.Exhaustive, len(knownHit), newV, wall)
	if newV > 0 {
		return 1
	}
	return 0
}

func sanitize(s string) string {
	var b strings.Builder
	for _, c := range s {
		switch {
		case c >= 'a' && c <= 'z', c >= 'A' && c <= 'Z', c >= '0' && c <= '9', c == '-', c == '_', c == '.':
			b.WriteRune(c)
		default:
			b.WriteByte('_')
		}
	}
	out := b.String()
	if len(out) > 100 {
		out = out[:100]
	}
	return out
}

func oneLine(s string) string {
	s = strings.ReplaceAll(s, "\n", " | ")
	if len(s) > 400 {
		s = s[:400] + "…"
	}
	return s
}

// Merge folds a worker's partial result (JSON written by WritePartial) into r.
type Partial struct {
	Evaluations int64                 `json:"evaluations"`
	States      int64                 `json:"states"`
	Transitions int64                 `json:"transitions"`
	Traces      int64                 `json:"traces"`
	Outcomes    []string              `json:"outcomes"`
	Samples     []any                 `json:"samples"`
	Violations  map[string]*Violation `json:"violations"`
	VioCount    map[string]int        `json:"vio_count"`
	Exhaustive  bool                  `json:"exhaustive"`
	Notes       []string              `json:"notes"`
	Extra       map[string]any        `json:"extra"`
}

// Handler panics noted by the seam (a panic inside a request is recovered by the HTTP
// layer, so it never reaches the harness unless the harness looks at the result): every
// one becomes a violation when the run (or the worker's partial) is written, whether or
// not the harness also judged it.
var (
	panicMu    sync.Mutex
	panicNotes [][2]string
)

// NotePanic records a recovered panic of the code under test.
func NotePanic(where string, p any, stack string) {
	panicMu.Lock()
	defer panicMu.Unlock()
	if len(panicNotes) < 10000 {
		panicNotes = append(panicNotes, [2]string{where, fmt.Sprintf("%v @ %s", p, stack)})
	}
}

func (r *Run) drainPanics() {
	panicMu.Lock()
	notes := panicNotes
	panicNotes = nil
	panicMu.Unlock()
	for _, n := range notes {
		r.Violate("handler-panic/"+n[0]+"/"+Normalize(n[1]), "the code under test panicked inside a request: "+n[1], nil)
	}
}

func (r *Run) WritePartial(path string) error {
	r.drainPanics()
	p := Partial{Evaluations: r.Evaluations, States: r.States, Transitions: r.Transitions, Traces: r.Traces,
		Samples: r.samples, Violations: r.violations, VioCount: r.vioCount, Exhaustive: r.Exhaustive, Notes: r.notes, Extra: r.Extra}
	for o := range r.outcomes {
		p.Outcomes = append(p.Outcomes, o)
	}
	b, err := json.Marshal(p)
	if err != nil {
		return err
	}
	return os.WriteFile(path, b, 0o644)
}

func (r *Run) MergePartialFile(path string) error {
	b, err := os.ReadFile(path)
	if err != nil {
		return err
	}
	var p Partial
	if err := json.Unmarshal(b, &p); err != nil {
		return err
	}
	r.mu.Lock()
	defer r.mu.Unlock()
	r.Evaluations += p.Evaluations
	r.States += p.States
	r.Transitions += p.Transitions
	r.Traces += p.Traces
	for _, o := range p.Outcomes {
		r.outcomes[o] = struct{}{}
	}
	for _, s := range p.Samples {
		if len(r.samples) < r.maxSamples {
			r.samples = append(r.samples, s)
		}
	}
	for s, v := range p.Violations {
		if _, ok := r.violations[s]; !ok {
			r.violations[s] = v
		}
		r.vioCount[s] += p.VioCount[s]
	}
	if !p.Exhaustive {
		r.Exhaustive = false
	}
	r.notes = append(r.notes, p.Notes...)
	for k, v := range p.Extra {
		if _, ok := r.Extra[k]; !ok {
			r.Extra[k] = v
		}
	}
	return nil
}
