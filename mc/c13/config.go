package c13

// Part 1: the configuration bytes.  Every enumerated (options, listener) cell goes
// through the real builder.PatchConfig(); the bytes are read back with ReadConfig
// (the Demon's reader) and compared with Expect().

import (
	"encoding/hex"
	"fmt"
	"reflect"
	"strings"
	"time"

	"Havoc/pkg/common/builder"
	"Havoc/pkg/handlers"

	"verifmc/ev"
	"verifmc/explore"
)

// ---- the alphabets -------------------------------------------------------------

type dim struct {
	name string
	n    int
}

var (
	vSleep     = []string{"2", "0", "2147483647"}
	vJitter    = []string{"0", "50", "100", "101", "-1"}
	vAllocExec = []string{"Native/Syscall", "Win32"}
	vTechnique = []string{"WaitForSingleObjectEx", "Foliage", "Ekko", "Zilean"}
	vGadget    = []string{"None", "jmp rax", "jmp rbx"}
	vProxyLoad = []string{"None (LdrLoadDll)", "RtlRegisterWait", "RtlCreateTimer", "RtlQueueWorkItem"}
	vAmsi      = []string{"None", "Hardware breakpoints"}
	vFormat    = []int{builder.FILETYPE_WINDOWS_EXE, builder.FILETYPE_WINDOWS_SERVICE_EXE, builder.FILETYPE_WINDOWS_DLL, builder.FILETYPE_WINDOWS_REFLECTIVE_DLL, builder.FILETYPE_WINDOWS_RAW_BINARY}
	vArch      = []int{builder.ARCHITECTURE_X64, builder.ARCHITECTURE_X86}
	vSpawn     = [][2]string{
		{`C:\Windows\System32\notepad.exe`, `C:\Windows\SysWOW64\notepad.exe`},
		{`C:\Program Files\Ünï cödé\a b.exe`, `C:\x86\𝔘.exe`}, // space, non-ASCII, a non-BMP letter (surrogate pair)
	}

	optDims = []dim{
		{"sleep", len(vSleep)}, {"jitter", len(vJitter)}, {"alloc", 2}, {"execute", 2},
		{"technique", len(vTechnique)}, {"gadget", len(vGadget)}, {"stackdup", 2},
		{"proxyload", len(vProxyLoad)}, {"syscall", 2}, {"amsi", len(vAmsi)},
		{"format", len(vFormat)}, {"arch", len(vArch)}, {"spawn", len(vSpawn)},
	}
)

func optionsFrom(ix []int) Options {
	return Options{
		Sleep: vSleep[ix[0]], Jitter: vJitter[ix[1]], Alloc: vAllocExec[ix[2]], Execute: vAllocExec[ix[3]],
		Technique: vTechnique[ix[4]], Gadget: vGadget[ix[5]], StackDup: ix[6] == 1,
		ProxyLoad: vProxyLoad[ix[7]], Syscall: ix[8] == 1, AmsiEtw: vAmsi[ix[9]],
		Format: vFormat[ix[10]], Arch: vArch[ix[11]],
		Spawn64: vSpawn[ix[12]][0], Spawn32: vSpawn[ix[12]][1],
		ServiceName: "HavocSvc",
	}
}

var (
	vHosts = [][]string{
		{"h.example"},
		{"h.example:8443"},
		{"h.example", "10.0.0.5:1"},
		{"a.example:65535", "b.example", "c.example:81"},
		{},
		{""},
		{":8443"},
		// a host written as the name of a local interface stands for that interface's (first) IPv4 address
		{"lo", "lo:8443", "h.example"},
		{"h.example:x"},
		{"h.example:"},
		{"h.example", "i.example:x"},
	}
	vPorts = [][2]string{ // PortConn, PortBind
		{"", "443"}, {"8443", "443"}, {"8443", "y"}, {"", "y"}, {"x", "443"}, {"", ""},
	}
	vUserAgent = []string{"Mozilla/5.0 (Windows NT 6.1; WOW64) AppleWebKit/537.36", "", "ü \"q\" $(x) `y` 𝔘"}
	vHeaders   = [][]string{{}, {"X-A: b"}, {"X-A: b", "Accept: */*"}}
	vHostHdr   = []string{"", "cdn.example"}
	vUris      = [][]string{{}, {"/a", "/b.php?x=1"}, {""}}
	vProxy     = []Proxy{
		{},
		{Enabled: true, Type: "http", Host: "proxy.example", Port: "8080"},
		{Enabled: true, Type: "https", Host: "10.1.1.1", Port: "3128", Username: "user", Password: "p@ss wörd"},
	}
	vKillDate = []int64{0, 133801632000000000, 2650467743990000000} // none, 2025, 9999-12-31 23:59:59
	vHours    = []string{"", "8:00-17:00", "0:00-23:59", "17:00-8:00", "24:00-24:30", "8:00-24:00", "abc"}
	vMethod   = []string{"POST", "GET", "get", ""}
	vRotation = []string{"round-robin", "random", ""}

	httpDims = []dim{
		{"hosts", len(vHosts)}, {"ports", len(vPorts)}, {"secure", 2}, {"useragent", len(vUserAgent)},
		{"headers", len(vHeaders)}, {"hostheader", len(vHostHdr)}, {"uris", len(vUris)}, {"proxy", len(vProxy)},
		{"killdate", len(vKillDate)}, {"hours", len(vHours)}, {"method", len(vMethod)}, {"rotation", len(vRotation)},
	}

	vPipe   = []string{"demon_pipe", "a b\\c", "win$vc#host@x!y", `\\.\pipe\already-prefixed`, ""} // plain, blank and backslash, every placeholder character of the pipe-name template helper, a name that is already a pipe path, empty
	smbDims = []dim{{"pipe", len(vPipe)}, {"killdate", len(vKillDate)}, {"hours", len(vHours)}}
)

func httpFrom(ix []int) Listener {
	return Listener{HTTP: &HTTPListener{
		Hosts: append([]string{}, vHosts[ix[0]]...), PortConn: vPorts[ix[1]][0], PortBind: vPorts[ix[1]][1],
		Secure: ix[2] == 1, UserAgent: vUserAgent[ix[3]], Headers: append([]string{}, vHeaders[ix[4]]...),
		HostHeader: vHostHdr[ix[5]], Uris: append([]string{}, vUris[ix[6]]...), Proxy: vProxy[ix[7]],
		KillDate: vKillDate[ix[8]], WorkingHours: vHours[ix[9]], Methode: vMethod[ix[10]], HostRotation: vRotation[ix[11]],
	}}
}

func smbFrom(ix []int) Listener {
	return Listener{SMB: &SMBListener{PipeName: vPipe[ix[0]], KillDate: vKillDate[ix[1]], WorkingHours: vHours[ix[2]]}}
}

func productSize(d []dim) int {
	n := 1
	for _, x := range d {
		n *= x.n
	}
	return n
}

// nth decodes linear index i of the full product (last dimension fastest).
func nth(d []dim, i int, ix []int) {
	for k := len(d) - 1; k >= 0; k-- {
		ix[k] = i % d[k].n
		i /= d[k].n
	}
}

// deviations lists every index vector with at most bound non-default entries
// (default = 0), by deviation-bounded DFS.
func deviations(d []dim, bound int) [][]int {
	var rows [][]int
	t := explore.Tree{Bound: bound}
	t.Run(func(c *explore.Chooser) {
		ix := make([]int, len(d))
		for k, x := range d {
			ix[k] = c.Choose(x.n, x.name)
		}
		rows = append(rows, ix)
	})
	return rows
}

// ---- driving the real builder -----------------------------------------------------

// realListener builds the teamserver's listener object for a spec listener.
func realListener(l Listener) (int, any) {
	if l.HTTP != nil {
		h := &handlers.HTTP{}
		c := &h.Config
		s := l.HTTP
		c.Name = "L"
		c.KillDate = s.KillDate
		c.WorkingHours = s.WorkingHours
		if s.Hosts != nil {
			c.Hosts = append([]string{}, s.Hosts...)
		}
		c.HostBind = "0.0.0.0"
		c.Methode = s.Methode
		c.HostRotation = s.HostRotation
		c.PortBind = s.PortBind
		c.PortConn = s.PortConn
		c.UserAgent = s.UserAgent
		// len == cap, so that an append inside the builder can never write into
		// spare capacity unnoticed
		if len(s.Headers) > 0 {
			c.Headers = make([]string, len(s.Headers))
			copy(c.Headers, s.Headers)
		}
		if len(s.Uris) > 0 {
			c.Uris = append([]string{}, s.Uris...)
		}
		c.HostHeader = s.HostHeader
		c.Secure = s.Secure
		c.Proxy.Enabled = s.Proxy.Enabled
		c.Proxy.Type = s.Proxy.Type
		c.Proxy.Host = s.Proxy.Host
		c.Proxy.Port = s.Proxy.Port
		c.Proxy.Username = s.Proxy.Username
		c.Proxy.Password = s.Proxy.Password
		return handlers.LISTENER_HTTP, h
	}
	m := &handlers.SMB{}
	m.Config.Name = "P"
	m.Config.PipeName = l.SMB.PipeName
	m.Config.KillDate = l.SMB.KillDate
	m.Config.WorkingHours = l.SMB.WorkingHours
	return handlers.LISTENER_PIVOT_SMB, m
}

type patchResult struct {
	Bytes []byte
	Err   string
	OK    bool
	Panic string
	Msgs  []string
}

// patch runs the real PatchConfig the way dispatch.go's Gate.Stageless handler sets
// the builder up (NewBuilder, SetConfig(json), SetArch, SetFormat, SetListener).
func patch(optJSON string, o Options, ltype int, lobj any) (res patchResult) {
	defer func() {
		if p := recover(); p != nil {
			res = patchResult{Panic: fmt.Sprint(p)}
		}
	}()
	b := builder.NewBuilder(builder.BuilderConfig{})
	b.ClientId = "c"
	b.SendConsoleMessage = func(t, m string) {
		if t == "Error" {
			res.Msgs = append(res.Msgs, m)
		}
	}
	if err := b.SetConfig(optJSON); err != nil {
		return patchResult{Err: "SetConfig: " + err.Error()}
	}
	b.SetArch(o.Arch)
	b.SetFormat(o.Format)
	b.SetListener(ltype, lobj)
	bytes, err := b.PatchConfig()
	if err != nil {
		res.Err = err.Error()
		return res
	}
	res.OK = true
	res.Bytes = bytes
	return res
}

func tname(l Listener) string {
	if l.HTTP != nil {
		return "http"
	}
	return "smb"
}

var optionFields = map[string]bool{"Sleeping": true, "Jitter": true, "Memory.Alloc": true, "Memory.Execute": true,
	"Process.Spawn64": true, "Process.Spawn86": true, "SleepMaskTechnique": true, "SleepJmpBypass": true,
	"StackSpoof": true, "ProxyLoading": true, "SysIndirect": true, "AmsiEtwPatch": true}

type cellDetail struct {
	Options  Options  `json:"options"`
	Listener Listener `json:"listener"`
	Build    int      `json:"build_number"` // 1 = first build against the listener, 2 = second build against the same listener object
	Error    string   `json:"error,omitempty"`
	Bytes    string   `json:"config_bytes,omitempty"`
	Diffs    []Diff   `json:"diffs,omitempty"`
	Note     string   `json:"note,omitempty"`
}

type cfgChecker struct {
	r *ev.Run
	k Constants
}

// judge applies the oracle to one PatchConfig result.
func (cc *cfgChecker) judge(o Options, l Listener, want Want, res patchResult, buildNo int, firstDiff map[string]bool) map[string]bool {
	r := cc.r
	t := tname(l)
	pre := "config/"
	if buildNo == 2 {
		pre = "config/rebuild/"
	}
	det := func() cellDetail {
		return cellDetail{Options: o, Listener: l, Build: buildNo, Error: res.Err, Bytes: hex.EncodeToString(res.Bytes)}
	}
	if res.Panic != "" {
		d := det()
		d.Error = "panic: " + res.Panic
		r.Violate(pre+"panic/"+ev.Normalize(res.Panic), "PatchConfig panics", d)
		r.Outcome("panic")
		return nil
	}
	if !res.OK {
		r.Outcome(t + "/fail/" + ev.Normalize(res.Err))
		if want.Verdict == MustSucceed {
			r.Violate(pre+t+"/rejected/"+sigText(res.Err), "a configuration the payload can carry was refused: "+res.Err, det())
		}
		return nil
	}
	// built
	if want.Verdict == MustFail {
		seen := map[string]bool{}
		for _, c := range want.FailCauses {
			seen["accepted/"+c] = true
			if buildNo == 2 && firstDiff["accepted/"+c] {
				continue
			}
			d := det()
			d.Note = "the build must fail: " + c
			r.Violate(pre+t+"/accepted/"+c, "a setting that cannot be encoded ("+c+") yields a payload instead of a failed build", d)
		}
		r.Outcome(t + "/built-but-unencodable/" + strings.Join(want.FailCauses, "+"))
		return seen
	}
	got := ReadConfig(res.Bytes, l.Transport())
	diffs := Compare(got, want, l.Transport())
	seen := map[string]bool{}
	for _, df := range diffs {
		key := df.Field + "/" + df.Sig
		seen[key] = true
		if buildNo == 2 && firstDiff[key] {
			continue // already reported for the first build
		}
		sig := pre
		if !optionFields[df.Field] {
			sig += t + "/"
		}
		sig += "field/" + df.Field
		if df.Sig != "" {
			sig += "/" + df.Sig
		}
		d := det()
		d.Diffs = diffs
		r.Violate(sig, fmt.Sprintf("the Demon reads %s = %s, the operator chose %s", df.Field, df.Got, df.Want), d)
	}
	if len(diffs) == 0 {
		cls := t + "/exact"
		if got.Residue != 0 {
			cls += "/residue"
		}
		if want.Verdict == MayFail {
			cls += "/" + strings.Join(want.MayCauses, "+")
		}
		r.Outcome(cls)
	} else {
		r.Outcome(t + "/mismatch/" + diffs[0].Field)
	}
	return seen
}

func sigText(s string) string {
	s = ev.Normalize(s)
	s = strings.Map(func(c rune) rune {
		switch {
		case c >= 'a' && c <= 'z', c >= 'A' && c <= 'Z', c >= '0' && c <= '9':
			return c
		}
		return '-'
	}, s)
	for strings.Contains(s, "--") {
		s = strings.ReplaceAll(s, "--", "-")
	}
	s = strings.Trim(s, "-")
	if len(s) > 60 {
		s = s[:60]
	}
	return s
}

// cell runs one (options, listener) cell; with rebuild a second builder is run
// against the same listener object, as happens when an operator generates two
// payloads for one listener.
func (cc *cfgChecker) cell(optJSON string, o Options, l Listener, rebuild bool) {
	want := Expect(cc.k, o, l)
	ltype, lobj := realListener(l)
	res := patch(optJSON, o, ltype, lobj)
	cc.r.Eval(1)
	first := cc.judge(o, l, want, res, 1, nil)
	if cc.r.WantSample() && res.OK {
		cc.r.Sample(map[string]any{"part": "config", "options": o, "listener": l, "bytes": hex.EncodeToString(res.Bytes)})
	}
	if rebuild {
		// PatchConfig is a deterministic function of the builder's settings and the
		// listener object; a second build against the same listener can only differ
		// if the first one changed the listener.  Compare the listener with a fresh
		// copy and run the second build only then.
		_, fresh := realListener(l)
		if reflect.DeepEqual(lobj, fresh) {
			cc.r.Outcome("listener-untouched")
			return
		}
		cc.r.Outcome("listener-modified-by-build")
		res2 := patch(optJSON, o, ltype, lobj)
		cc.r.Eval(1)
		cc.judge(o, l, want, res2, 2, first)
	}
}

// ---- the enumeration -------------------------------------------------------------

type cfgPlan struct {
	// A: full option product x these listeners
	aListeners []Listener
	// B: listener rows x option rows (both deviation-bounded), with rebuild
	bListeners []Listener
	bOptions   [][]int
	// C: HTTP listener rows (nil = the full product) and all SMB rows x these option rows, with rebuild
	cListeners []Listener
	cOptions   [][]int
	desc       map[string]any
}

func allRows(d []dim) [][]int {
	n := productSize(d)
	rows := make([][]int, n)
	for i := range rows {
		rows[i] = make([]int, len(d))
		nth(d, i, rows[i])
	}
	return rows
}

func listenersOf(httpRows, smbRows [][]int) []Listener {
	var ls []Listener
	for _, ix := range httpRows {
		ls = append(ls, httpFrom(ix))
	}
	for _, ix := range smbRows {
		ls = append(ls, smbFrom(ix))
	}
	return ls
}

func makePlan(thorough bool) cfgPlan {
	var p cfgPlan
	smbAll := allRows(smbDims)
	if !thorough {
		// A: the option product against the cheap listener type only (options and
		// listener settings are packed independently; B and C cross them)
		p.aListeners = []Listener{smbFrom([]int{0, 0, 0})}
		p.bListeners = listenersOf(deviations(httpDims, 2), smbAll)
		p.bOptions = deviations(optDims, 2)
		p.cListeners = listenersOf(deviations(httpDims, 4), nil)
		p.cOptions = deviations(optDims, 0)
		p.desc = map[string]any{"A_listeners": "1 SMB", "B_listener_deviation_bound": 2, "B_option_deviation_bound": 2,
			"C_listeners": "HTTP rows with at most 4 non-default settings", "C_option_rows": "default"}
	} else {
		// A: every SMB row; HTTP: the default row, every alternative of the host list
		// and a row with every setting non-default (options and listener settings are
		// packed independently, B and C cross them; the host lookups of the HTTP path
		// serialise on a kernel lock, which bounds what fits into the tier)
		var aHTTP [][]int
		for _, ix := range deviations(httpDims[:1], 1) {
			aHTTP = append(aHTTP, append(ix, make([]int, len(httpDims)-1)...))
		}
		aHTTP = append(aHTTP, []int{3, 1, 1, 2, 2, 1, 1, 2, 1, 1, 0, 1})
		p.aListeners = listenersOf(aHTTP, smbAll)
		p.bListeners = listenersOf(deviations(httpDims, 3), smbAll)
		p.bOptions = deviations(optDims, 2)
		p.cListeners = nil // full product, generated on the fly
		all := make([]int, len(optDims))
		for i := range all {
			all[i] = 1
		}
		p.cOptions = [][]int{make([]int, len(optDims)), all}
		p.desc = map[string]any{"A_listeners": "HTTP default row, every host-list alternative, one all-non-default row + all SMB rows", "B_listener_deviation_bound": 3, "B_option_deviation_bound": 2,
			"C_listeners": "full HTTP product", "C_option_rows": "default row and the row of all first alternatives"}
	}
	p.desc["A_listener_count"] = len(p.aListeners)
	p.desc["B_listener_rows"] = len(p.bListeners)
	p.desc["B_option_rows"] = len(p.bOptions)
	if p.cListeners != nil {
		p.desc["C_listener_rows"] = len(p.cListeners)
	} else {
		p.desc["C_listener_rows"] = productSize(httpDims)
	}
	return p
}

// runConfig executes this worker's share (outer loop index mod n == i).
func runConfig(r *ev.Run, k Constants, wi, wn int, deadline time.Time) {
	cc := &cfgChecker{r: r, k: k}
	p := makePlan(r.Thorough())
	capped := false
	over := func() bool {
		if !deadline.IsZero() && time.Now().After(deadline) {
			capped = true
		}
		return capped
	}

	// A: full option product
	nOpt := productSize(optDims)
	ix := make([]int, len(optDims))
	for i := wi; i < nOpt && !over(); i += wn {
		nth(optDims, i, ix)
		o := optionsFrom(ix)
		js := o.JSON()
		for _, l := range p.aListeners {
			cc.cell(js, o, l, false)
		}
	}

	// B: deviation-bounded rows of both sides, second build included
	for i := wi; i < len(p.bOptions) && !over(); i += wn {
		o := optionsFrom(p.bOptions[i])
		js := o.JSON()
		for _, l := range p.bListeners {
			cc.cell(js, o, l, true)
		}
	}

	// C: full listener product
	type orow struct {
		o  Options
		js string
	}
	var orows []orow
	for _, x := range p.cOptions {
		o := optionsFrom(x)
		orows = append(orows, orow{o, o.JSON()})
	}
	if p.cListeners != nil {
		for i := wi; i < len(p.cListeners) && !over(); i += wn {
			for _, or := range orows {
				cc.cell(or.js, or.o, p.cListeners[i], true)
			}
		}
	} else {
		nHTTP := productSize(httpDims)
		hx := make([]int, len(httpDims))
		for i := wi; i < nHTTP && !over(); i += wn {
			nth(httpDims, i, hx)
			l := httpFrom(hx)
			for _, or := range orows {
				cc.cell(or.js, or.o, l, true)
			}
		}
	}
	if wi == 0 {
		for _, sx := range allRows(smbDims) {
			l := smbFrom(sx)
			for _, or := range orows {
				cc.cell(or.js, or.o, l, true)
			}
		}
	}
	if capped {
		r.Extra["capped: part 1 (config bytes) stopped at the internal deadline"] = true
	}
}
