// Package c13: "A generated payload is configured for exactly the chosen listener
// and options".
//
//	part 1  builder.PatchConfig() over the product of build options x listener
//	        configurations, read back with the Demon's reader (readconfig.go) and
//	        compared with the specification (spec.go)
//	part 2  common.ParseWorkingHours() over every H:M-H:M string and malformed shapes,
//	        unpacked with the Demon's bit layout
//	part 3  builder.Build() with stub compilers: the command line
//
// The orchestrator starts worker subprocesses of its own binary (the teamserver's
// logger is a process global and prints; a worker's stdout is discarded) and merges
// their partial results in worker order.
package c13

import (
	"fmt"
	"os"
	"os/exec"
	"path/filepath"
	"runtime"
	"strconv"
	"strings"
	"time"

	"verifmc/ev"
)

func demonDir() string { return filepath.Join(repoRoot(), "payloads", "Demon") }

func Run(r *ev.Run) {
	if w := os.Getenv("VERIF_WORKER"); w != "" {
		worker(r, w)
		return
	}
	orchestrate(r)
}

func describe(r *ev.Run) {
	p := makePlan(r.Thorough())
	r.Rule = "part 1: (A) full product of the client's build options x a listener set, (B) option rows x listener rows with at most k non-default settings each (deviation-bounded DFS), built twice against the same listener object, (C) full product of the HTTP listener settings and all SMB rows x option rows, built twice; every cell through the real PatchConfig(), decoded by the transcribed DemonConfig() reader and compared field by field with the specification. " +
		"part 2: every string H:M-H:M, H in 0..29, M in 0..69, each number plain and zero-padded, plus malformed shapes, through the real ParseWorkingHours(), unpacked with the Demon's bit layout. " +
		"part 3: every format x architecture x debug x send-logs x transport through the real Build() with stub compilers; for service executables every service name of a metacharacter list, compared argument by argument with the same build for the name \"svc\""
	r.Bounds["option_dimensions"] = dimsDesc(optDims)
	r.Bounds["http_listener_dimensions"] = dimsDesc(httpDims)
	r.Bounds["smb_listener_dimensions"] = dimsDesc(smbDims)
	r.Bounds["option_product"] = productSize(optDims)
	r.Bounds["http_listener_product"] = productSize(httpDims)
	r.Bounds["smb_listener_product"] = productSize(smbDims)
	r.Bounds["part1_plan"] = p.desc
	r.Bounds["part1_B_rows"] = map[string]int{"options": len(p.bOptions), "listeners": len(p.bListeners)}
	r.Bounds["part1_C_option_rows"] = len(p.cOptions)
	if r.Thorough() {
		r.Bounds["hours_grammar"] = "H:M-H:M, H 0..29 (40 spellings), M 0..69 (80 spellings): 10,240,000 strings + malformed list"
	} else {
		r.Bounds["hours_grammar"] = "H:M-H:M, H 0..29, M 0..69 in plain spelling: 4,410,000 strings; zero-padded spellings 00..09 in every non-empty subset of the four positions against boundary values elsewhere; malformed list"
	}
	r.Bounds["service_names"] = len(serviceNames) + 1
	r.Assume(
		"the Demon reads its configuration exactly as DemonConfig() in payloads/Demon/src/Demon.c does (transcribed by hand into readconfig.go; constants are read from the Demon headers of the tree under test)",
		"host names that are names of local network interfaces are replaced by the interface address (builder feature); the enumerated host names are not interface names",
		"host entries are name or name:port; entries with more than one colon (IPv6 literals) are outside the enumerated grammar",
		"ports outside 1..65535 are not demanded to fail: they fit the 4 byte field the Demon reads",
		"part 3 observes the commands through stub compilers that record argv; a command started by the shell that neither is a stub nor touches the source directory would go unnoticed, the argument-by-argument comparison with the benign build excludes that for the enumerated names",
	)
}

func dimsDesc(d []dim) string {
	var s []string
	for _, x := range d {
		s = append(s, fmt.Sprintf("%s:%d", x.name, x.n))
	}
	return strings.Join(s, " ")
}

func tierDeadline(r *ev.Run, start time.Time) time.Time {
	if r.Thorough() {
		return start.Add(17 * time.Minute)
	}
	return start.Add(75 * time.Second)
}

func orchestrate(r *ev.Run) {
	describe(r)
	_, notes := LoadConstants(demonDir())
	for _, n := range notes {
		r.Note("constants: %s", n)
	}
	if got, why := ReadOrder(demonDir()); got != transcribedReadOrder {
		r.Violate("harness/demon-reader-drift", "DemonConfig() in Demon.c no longer reads the configuration in the order readconfig.go was transcribed from; the reference reader has to be updated before any verdict of this check means anything",
			map[string]any{"transcribed": transcribedReadOrder, "demon_c": got, "error": why})
	} else {
		r.Outcome("drift-guard/DemonConfig-read-order-unchanged")
	}
	if why := hoursLayoutDrift(demonDir()); why != "" {
		r.Violate("harness/demon-working-hours-drift", "InWorkingHours() in Command.c differs from the transcription in readconfig.go: "+why, why)
	} else {
		r.Outcome("drift-guard/InWorkingHours-unchanged")
	}
	n := runtime.NumCPU()
	if v, err := strconv.Atoi(os.Getenv("VERIF_WORKERS")); err == nil && v > 0 {
		n = v
	}
	if n > 1 {
		n-- // one core for the build worker
	}
	dir, err := os.MkdirTemp("", "c13-parts-")
	if err != nil {
		r.NotExhaustive("cannot create temp dir: " + err.Error())
		return
	}
	defer os.RemoveAll(dir)
	deadline := tierDeadline(r, time.Now())
	type job struct {
		spec string
		out  string
		cmd  *exec.Cmd
		errb *strings.Builder
	}
	var jobs []*job
	add := func(spec string) {
		j := &job{spec: spec, out: filepath.Join(dir, strings.ReplaceAll(spec, "/", "_")+".json"), errb: &strings.Builder{}}
		j.cmd = exec.Command(os.Args[0])
		j.cmd.Env = append(os.Environ(), "VERIF_WORKER="+spec, "VERIF_PARTIAL="+j.out,
			"VERIF_DEADLINE="+strconv.FormatInt(deadline.UnixNano(), 10))
		j.cmd.Stdout = nil // the teamserver's logger prints there
		j.cmd.Stderr = j.errb
		jobs = append(jobs, j)
	}
	nb := 3
	if n <= 3 {
		nb = 1
	} else {
		n -= 2
	}
	for i := 0; i < nb; i++ {
		add(fmt.Sprintf("build/%d/%d", i, nb))
	}
	add("dispatch/0/1")
	for i := 0; i < n; i++ {
		add(fmt.Sprintf("enum/%d/%d", i, n))
	}
	for _, j := range jobs {
		if err := j.cmd.Start(); err != nil {
			r.NotExhaustive("cannot start worker " + j.spec + ": " + err.Error())
			j.cmd = nil
		}
	}
	for _, j := range jobs {
		if j.cmd == nil {
			continue
		}
		err := j.cmd.Wait()
		if err != nil {
			msg := j.errb.String()
			if len(msg) > 600 {
				msg = msg[len(msg)-600:]
			}
			r.Violate("harness/worker-died/"+strings.SplitN(j.spec, "/", 2)[0], "a worker process ended abnormally: "+err.Error(), map[string]any{"worker": j.spec, "stderr": msg})
			continue
		}
		if err := r.MergePartialFile(j.out); err != nil {
			r.Violate("harness/partial-missing", "worker result unreadable: "+err.Error(), j.spec)
		}
	}
	r.Bounds["workers"] = n + nb
	var capped []string
	for k := range r.Extra {
		if strings.HasPrefix(k, "capped: ") {
			capped = append(capped, strings.TrimPrefix(k, "capped: "))
		}
	}
	sortStrings(capped)
	for _, c := range capped {
		delete(r.Extra, "capped: "+c)
		r.NotExhaustive(c)
	}
}

func worker(r *ev.Run, spec string) {
	parts := strings.Split(spec, "/")
	if len(parts) != 3 {
		fmt.Fprintln(os.Stderr, "bad VERIF_WORKER", spec)
		os.Exit(2)
	}
	wi, _ := strconv.Atoi(parts[1])
	wn, _ := strconv.Atoi(parts[2])
	var deadline time.Time
	if v, err := strconv.ParseInt(os.Getenv("VERIF_DEADLINE"), 10, 64); err == nil && v > 0 {
		deadline = time.Unix(0, v)
	}
	k, _ := LoadConstants(demonDir())
	switch parts[0] {
	case "enum":
		t0 := time.Now()
		runHours(r, wi, wn, deadline)
		if wi == 0 {
			runKillDates(r)
		}
		t1 := time.Now()
		runConfig(r, k, wi, wn, deadline)
		if wi == 0 {
			r.Extra["seconds_worker0"] = map[string]float64{"part2_hours": t1.Sub(t0).Seconds(), "part1_config": time.Since(t1).Seconds()}
		}
	case "dispatch":
		runDispatch(r, k)
	case "build":
		t0 := time.Now()
		runBuild(r, k, wi, wn, deadline)
		if wi == 0 {
			r.Extra["seconds_part3_build_worker0"] = time.Since(t0).Seconds()
		}
	}
	if err := r.WritePartial(os.Getenv("VERIF_PARTIAL")); err != nil {
		fmt.Fprintln(os.Stderr, "cannot write partial:", err)
		os.Exit(2)
	}
	os.Exit(0)
}
