package c13

import (
	"bytes"
	"encoding/hex"
	"encoding/json"
	"fmt"
	"os"
	"strings"
	"time"

	"Havoc/cmd/server"
	"Havoc/pkg/packager"

	"verifmc/ev"
	"verifmc/fake"
	"verifmc/seam"
)

// Part 4: "exactly the chosen listener" through the operator's entry point.  A real
// teamserver holds several listeners whose names are look-alikes of one another (letter
// case, a prefix, a suffix, surrounding blanks) and whose settings all differ; for every
// one of them, in both registration orders, the operator's Gate/Stageless request is
// dispatched through DispatchEvent with the stand-in compiler of part 3, and the
// CONFIG_BYTES define the compiler receives must be byte-identical with what PatchConfig
// yields for exactly that listener (whose bytes parts 1-3 judge against the Demon's
// reader).  Differential oracle: no expected value is written by hand.
func dispatchListeners() []struct {
	name string
	l    Listener
} {
	http := func(host, port, ua, uri string, secure bool) Listener {
		return Listener{HTTP: &HTTPListener{Hosts: []string{host}, PortBind: port, PortConn: port, Methode: "POST", HostRotation: "round-robin",
			Secure: secure, UserAgent: ua, Uris: []string{uri}, Headers: []string{"X-L: " + ua}}}
	}
	smb := func(pipe string) Listener { return Listener{SMB: &SMBListener{PipeName: pipe}} }
	return []struct {
		name string
		l    Listener
	}{
		{"edge", http("edge-a.example", "443", "agent-of-edge", "/edge", true)},
		{"EDGE", http("other-b.example", "8443", "agent-of-EDGE", "/EDGE", false)},
		{"edg", http("edg-c.example", "80", "agent-of-edg", "/edg", false)},
		{"edge2", http("edge2-d.example", "8080", "agent-of-edge2", "/edge2", true)},
		{"edge ", http("blank-e.example", "81", "agent-of-edge-blank", "/blank", false)},
		{"Edge", smb("pipe_of_Edge")},
		{"pivot-edge", smb("pipe_of_pivot_edge")},
	}
}

func runDispatch(r *ev.Run, k Constants) {
	s, err := newSandbox()
	defer s.close()
	if err != nil {
		r.NotExhaustive("part 4 (listener choice through DispatchEvent) not run: " + err.Error())
		return
	}
	if err := os.Chdir(s.root); err != nil {
		r.NotExhaustive("part 4 not run: " + err.Error())
		return
	}
	os.Setenv("STUBCC_LOG", s.log)
	os.Unsetenv("STUBCC_EXIT")
	ls := dispatchListeners()
	c := buildCase{Format: 1, Arch: vArch[0], Transport: TransportHTTP, Name: "svc", NameClass: "plain"}
	o := buildOptions(c)
	arch := "x64"
	if extFor(c)[:4] == ".x86" {
		arch = "x86"
	}
	n := 0
	for _, order := range []string{"as-listed", "reversed"} {
		ts := seam.New(seam.Options{})
		t := ts.T
		t.Settings.Compiler64, t.Settings.Compiler32, t.Settings.Nasm = s.cc64, s.cc86, s.nasm
		ws := fake.NewWS("U")
		t.Clients.Store("U", &server.Client{ClientID: "U", Username: "op1", GlobalIP: "10.1.1.1:50000", Connection: ws.Conn, Packager: packager.NewPackager(), Authenticated: true})
		idx := make([]int, len(ls))
		for i := range ls {
			idx[i] = i
			if order == "reversed" {
				idx[i] = len(ls) - 1 - i
			}
		}
		for _, i := range idx {
			ltype, lobj := realListener(ls[i].l)
			t.Listeners = append(t.Listeners, &server.Listener{Name: ls[i].name, Type: ltype, Config: lobj})
		}
		for _, i := range idx {
			chosen := ls[i]
			os.Remove(s.log)
			before, _ := ws.Frames()
			t.DispatchEvent(packager.Package{Head: packager.Head{Event: packager.Type.Gate.Type, User: "op1"},
				Body: packager.Body{SubEvent: packager.Type.Gate.Stageless, Info: map[string]any{
					"AgentType": "Demon", "Listener": chosen.name, "Arch": arch, "Format": "Windows Exe", "Config": o.JSON()}}})
			// the build runs on a goroutine of its own: it ends with the payload event or an error line
			done, failed := false, ""
			for start := time.Now(); !done && time.Since(start) < 90*time.Second; {
				frames, _ := ws.Frames()
				for _, f := range frames[len(before):] {
					var pk packager.Package
					if json.Unmarshal(f.Payload, &pk) != nil || pk.Head.Event != packager.Type.Gate.Type {
						continue
					}
					if pk.Body.SubEvent == packager.Type.Gate.Stageless && pk.Body.Info["PayloadArray"] != nil {
						done = true
					}
					if mt, _ := pk.Body.Info["MessageType"].(string); mt == "Error" {
						done, failed = true, fmt.Sprint(pk.Body.Info["Message"])
					}
				}
				if !done {
					time.Sleep(3 * time.Millisecond)
				}
			}
			n++
			r.Eval(1)
			detail := map[string]any{"registered_in_order": order, "chosen": chosen.name, "listeners": names(ls, idx)}
			if !done {
				r.NotExhaustive(fmt.Sprintf("part 4: the build for listener %q did not report within 90 s", chosen.name))
				continue
			}
			if failed != "" {
				detail["error"] = failed
				r.Violate("dispatch/build-failed/"+sigText(failed), "a payload for an existing listener is refused through the operator's entry point: "+failed, detail)
				continue
			}
			invs, _ := parseLog(s.log)
			var got []byte
			found := 0
			for _, inv := range compiles(invs) {
				for _, a := range inv.Argv {
					if strings.HasPrefix(a, "-DCONFIG_BYTES=") {
						if b, ok := parseConfigBytes(a[len("-DCONFIG_BYTES="):]); ok {
							got = b
							found++
						}
					}
				}
			}
			ltype, lobj := realListener(chosen.l)
			want := patch(o.JSON(), o, ltype, lobj)
			detail["config_bytes_at_the_compiler"] = hex.EncodeToString(got)
			detail["config_bytes_for_the_chosen_listener"] = hex.EncodeToString(want.Bytes)
			switch {
			case found != 1:
				r.Violate("dispatch/config-define-count", fmt.Sprintf("%d CONFIG_BYTES defines reached the compiler", found), detail)
			case !want.OK:
				r.Violate("harness/dispatch-reference", "PatchConfig refuses the reference listener: "+want.Err, detail)
			case !bytes.Equal(got, want.Bytes):
				// which listener is it then?
				is := "none of the registered listeners"
				for _, j := range idx {
					lt, lo := realListener(ls[j].l)
					if p := patch(o.JSON(), o, lt, lo); p.OK && bytes.Equal(p.Bytes, got) {
						is = fmt.Sprintf("listener %q", ls[j].name)
					}
				}
				detail["payload_is_configured_for"] = is
				r.Violate("dispatch/other-listener/"+nameClass(chosen.name), fmt.Sprintf("the operator chose listener %q, the payload is configured for %s", chosen.name, is), detail)
				r.Outcome("dispatch/other-listener")
			default:
				r.Outcome("dispatch/chosen-listener/" + nameClass(chosen.name))
			}
			for _, inv := range invs { // compile directories of this build
				for i, a := range inv.Argv {
					if a == "-o" && i+1 < len(inv.Argv) && reTmpDir.MatchString(inv.Argv[i+1]) {
						os.RemoveAll(reTmpDir.FindString(inv.Argv[i+1]))
					}
				}
			}
		}
		ts.Close()
	}
	r.Bounds["dispatch_listeners"] = names(ls, nil)
	r.Bounds["dispatch_orders"] = []string{"as-listed", "reversed"}
	r.Extra["dispatch_builds"] = n
}

func nameClass(n string) string {
	return strings.ReplaceAll(n, " ", "_")
}

func names(ls []struct {
	name string
	l    Listener
}, idx []int) []string {
	var out []string
	if idx == nil {
		for _, l := range ls {
			out = append(out, l.name)
		}
		return out
	}
	for _, i := range idx {
		out = append(out, ls[i].name)
	}
	return out
}
