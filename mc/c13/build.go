package c13

// Part 3: command construction.  The real Builder.Build() runs with stub programs in
// place of the two mingw compilers and nasm (shim/stubcc.c, compiled at run time).
// The stubs record their argv; the harness checks that the configuration reaches the
// compiler as the CONFIG_BYTES define, that the define set matches the choices, and
// that an operator-supplied service name changes nothing in the command but the one
// argument that carries it (and runs nothing).
//
// Build() resolves the Demon sources relative to the working directory
// (<cwd>/payloads/Demon), runs its commands there, and writes its outputs to
// /tmp/<random>/.  The harness works in a private copy of payloads/ under a temp
// directory so nothing is ever written into the repository.

import (
	"encoding/binary"
	"encoding/hex"
	"fmt"
	"io"
	"io/fs"
	"os"
	"os/exec"
	"path/filepath"
	"regexp"
	"sort"
	"strings"
	"time"

	"Havoc/pkg/common/builder"

	"verifmc/ev"
)

type invocation struct {
	Cwd  string   `json:"cwd"`
	Argv []string `json:"argv"`
}

func parseLog(path string) ([]invocation, error) {
	b, err := os.ReadFile(path)
	if err != nil {
		if os.IsNotExist(err) {
			return nil, nil
		}
		return nil, err
	}
	var out []invocation
	rd := func() (string, bool) {
		if len(b) < 4 {
			return "", false
		}
		n := int(binary.LittleEndian.Uint32(b))
		b = b[4:]
		if n > len(b) {
			return "", false
		}
		s := string(b[:n])
		b = b[n:]
		return s, true
	}
	for len(b) > 0 {
		if len(b) < 4 {
			return out, fmt.Errorf("truncated record")
		}
		argc := int(binary.LittleEndian.Uint32(b))
		b = b[4:]
		var inv invocation
		var ok bool
		if inv.Cwd, ok = rd(); !ok {
			return out, fmt.Errorf("truncated record")
		}
		for i := 0; i < argc; i++ {
			a, ok := rd()
			if !ok {
				return out, fmt.Errorf("truncated record")
			}
			inv.Argv = append(inv.Argv, a)
		}
		out = append(out, inv)
	}
	return out, nil
}

// ---- sandbox --------------------------------------------------------------------

type sandbox struct {
	root    string // cwd of the builds: contains payloads/ and bin/
	demon   string // root/payloads/Demon
	log     string
	cc64    string
	cc86    string
	nasm    string
	asm     map[int][]string // arch -> asm files
	tpl     map[int][]byte   // arch -> shellcode template
	baseSet map[string]bool
}

func copyTree(src, dst string) error {
	return filepath.WalkDir(src, func(p string, d fs.DirEntry, err error) error {
		if err != nil {
			return err
		}
		rel, _ := filepath.Rel(src, p)
		to := filepath.Join(dst, rel)
		if d.IsDir() {
			return os.MkdirAll(to, 0o755)
		}
		if !d.Type().IsRegular() {
			return nil
		}
		in, err := os.Open(p)
		if err != nil {
			return err
		}
		defer in.Close()
		out, err := os.Create(to)
		if err != nil {
			return err
		}
		defer out.Close()
		_, err = io.Copy(out, in)
		return err
	})
}

func repoRoot() string {
	if r := os.Getenv("VERIF_REPO_ROOT"); r != "" {
		return r
	}
	return "/repo"
}

func newSandbox() (*sandbox, error) {
	root, err := os.MkdirTemp("", "c13-build-")
	if err != nil {
		return nil, err
	}
	s := &sandbox{root: root, demon: filepath.Join(root, "payloads", "Demon"), log: filepath.Join(root, "stubcc.log"),
		asm: map[int][]string{}, tpl: map[int][]byte{}}
	src := filepath.Join(repoRoot(), "payloads")
	for _, d := range []string{"src", "include"} {
		if err := copyTree(filepath.Join(src, "Demon", d), filepath.Join(s.demon, d)); err != nil {
			return s, err
		}
	}
	for arch, f := range map[int]string{builder.ARCHITECTURE_X64: "Shellcode.x64.bin", builder.ARCHITECTURE_X86: "Shellcode.x86.bin"} {
		b, err := os.ReadFile(filepath.Join(src, f))
		if err != nil {
			return s, err
		}
		s.tpl[arch] = b
		if err := os.WriteFile(filepath.Join(root, "payloads", f), b, 0o644); err != nil {
			return s, err
		}
	}
	ents, _ := os.ReadDir(filepath.Join(s.demon, "src", "asm"))
	for _, e := range ents {
		if strings.Contains(e.Name(), ".x64.") {
			s.asm[builder.ARCHITECTURE_X64] = append(s.asm[builder.ARCHITECTURE_X64], "src/asm/"+e.Name())
		}
		if strings.Contains(e.Name(), ".x86.") {
			s.asm[builder.ARCHITECTURE_X86] = append(s.asm[builder.ARCHITECTURE_X86], "src/asm/"+e.Name())
		}
	}
	bin := filepath.Join(root, "bin")
	os.MkdirAll(bin, 0o755)
	stub := filepath.Join(bin, "stubcc")
	cc, err := exec.LookPath("gcc")
	if err != nil {
		if cc, err = exec.LookPath("cc"); err != nil {
			return s, fmt.Errorf("no C compiler to build the stub: %v", err)
		}
	}
	if out, err := exec.Command(cc, "-O1", "-o", stub, filepath.Join(ev.Root(), "shim", "stubcc.c")).CombinedOutput(); err != nil {
		return s, fmt.Errorf("building the stub failed: %v: %s", err, out)
	}
	s.cc64 = filepath.Join(bin, "x86_64-w64-mingw32-gcc")
	s.cc86 = filepath.Join(bin, "i686-w64-mingw32-gcc")
	s.nasm = filepath.Join(bin, "nasm")
	for _, p := range []string{s.cc64, s.cc86, s.nasm} {
		if err := os.Link(stub, p); err != nil {
			return s, err
		}
	}
	s.baseSet = s.listing()
	return s, nil
}

func (s *sandbox) close() {
	if s != nil && s.root != "" {
		os.RemoveAll(s.root)
	}
}

// listing is the set of paths below the sandbox root (the stub log excluded).
func (s *sandbox) listing() map[string]bool {
	m := map[string]bool{}
	filepath.WalkDir(s.root, func(p string, d fs.DirEntry, err error) error {
		if err == nil && p != s.log {
			rel, _ := filepath.Rel(s.root, p)
			m[rel] = true
		}
		return nil
	})
	return m
}

// ---- one build --------------------------------------------------------------------

type buildCase struct {
	Format    int    `json:"format"`
	Arch      int    `json:"arch"`
	Debug     bool   `json:"debug"`
	SendLogs  bool   `json:"send_logs"`
	Transport int    `json:"transport"` // TransportHTTP / TransportSMB
	Name      string `json:"service_name"`
	NameClass string `json:"service_name_class"`
	BadHTTP   string `json:"unencodable_listener_setting,omitempty"` // "" or one of badListeners
}

type buildResult struct {
	OK       bool         `json:"build_returned"`
	Panic    string       `json:"panic,omitempty"`
	Invs     []invocation `json:"stub_invocations"`
	NewFiles []string     `json:"files_created_in_source_tree,omitempty"`
	Gone     []string     `json:"files_removed_from_source_tree,omitempty"`
	Msgs     []string     `json:"console,omitempty"`
	Payload  []byte       `json:"-"`
	OutPath  string       `json:"output_path"`
	Dir      string       `json:"compile_dir"`
}

var formatName = map[int]string{1: "exe", 2: "service-exe", 3: "dll", 4: "reflective-dll", 5: "shellcode"}

func extFor(c buildCase) string {
	e := ".x64"
	if c.Arch == builder.ARCHITECTURE_X86 {
		e = ".x86"
	}
	switch c.Format {
	case builder.FILETYPE_WINDOWS_EXE, builder.FILETYPE_WINDOWS_SERVICE_EXE:
		return e + ".exe"
	case builder.FILETYPE_WINDOWS_DLL, builder.FILETYPE_WINDOWS_REFLECTIVE_DLL:
		return e + ".dll"
	}
	return e + ".bin"
}

// the listener and options used for every build of part 3
func buildListener(transport int) Listener {
	if transport == TransportSMB {
		return Listener{SMB: &SMBListener{PipeName: "demon_pipe", WorkingHours: "9:30-18:45"}}
	}
	return Listener{HTTP: &HTTPListener{
		Hosts: []string{"h.example:8443", "i.example"}, PortBind: "443", Methode: "POST", HostRotation: "round-robin", Secure: true,
		UserAgent: "UA $(touch CANARY_UA) `touch CANARY_UA2`; touch CANARY_UA3 '\"", Headers: []string{"X-A: $(touch CANARY_H)"},
		HostHeader: "cdn.example", Uris: []string{"/a;touch CANARY_URI"}, WorkingHours: "8:00-17:00", KillDate: 133801632000000000,
	}}
}

// listener settings the payload cannot carry: Build() has to fail before any tool runs
var badListeners = []string{"host-port-not-a-number", "default-port-not-a-number", "method-get", "working-hours-malformed", "working-hours-start-after-end"}

func caseListener(c buildCase) Listener {
	l := buildListener(c.Transport)
	switch c.BadHTTP {
	case "host-port-not-a-number":
		l.HTTP.Hosts = []string{"h.example", "i.example:https"}
	case "default-port-not-a-number":
		l.HTTP.PortBind = "https"
	case "method-get":
		l.HTTP.Methode = "GET"
	case "working-hours-malformed":
		l.HTTP.WorkingHours = "8-17"
	case "working-hours-start-after-end":
		l.HTTP.WorkingHours = "17:00-8:00"
	}
	return l
}

func buildOptions(c buildCase) Options {
	o := optionsFrom(make([]int, len(optDims)))
	o.Format, o.Arch, o.ServiceName = c.Format, c.Arch, c.Name
	o.Technique, o.Gadget, o.StackDup = "Ekko", "jmp rbx", true
	return o
}

// run executes the real Build() the way dispatch.go drives it.
func (s *sandbox) run(c buildCase) (res buildResult) {
	os.Remove(s.log)
	o := buildOptions(c)
	ltype, lobj := realListener(caseListener(c))
	b := builder.NewBuilder(builder.BuilderConfig{Compiler64: s.cc64, Compiler86: s.cc86, Nasm: s.nasm, DebugDev: c.Debug, SendLogs: c.SendLogs})
	b.ClientId = "c"
	b.SendConsoleMessage = func(t, m string) {
		if t == "Error" {
			res.Msgs = append(res.Msgs, m)
		}
	}
	func() {
		defer func() {
			if p := recover(); p != nil {
				res.Panic = fmt.Sprint(p)
			}
		}()
		if err := b.SetConfig(o.JSON()); err != nil {
			res.Msgs = append(res.Msgs, "SetConfig: "+err.Error())
			return
		}
		b.SetArch(c.Arch)
		b.SetFormat(c.Format)
		b.SetListener(ltype, lobj)
		b.SetExtension(extFor(c))
		res.OK = b.Build()
		if res.OK {
			res.Payload = b.GetPayloadBytes()
		}
	}()
	res.OutPath = b.GetOutputPath()
	res.Dir = b.CompileDir
	res.Invs, _ = parseLog(s.log)
	// what changed in the source tree / working directory
	now := s.listing()
	for p := range now {
		if !s.baseSet[p] {
			res.NewFiles = append(res.NewFiles, p)
			os.RemoveAll(filepath.Join(s.root, p))
		}
	}
	for p := range s.baseSet {
		if !now[p] {
			res.Gone = append(res.Gone, p)
		}
	}
	sort.Strings(res.NewFiles)
	sort.Strings(res.Gone)
	// remove what Build() left in /tmp
	func() {
		defer func() { recover() }()
		b.DeletePayload()
	}()
	if strings.HasPrefix(res.Dir, "/tmp/") && len(res.Dir) > len("/tmp/")+5 {
		os.RemoveAll(res.Dir)
	}
	for _, inv := range res.Invs { // inner builder of the shellcode format
		for i, a := range inv.Argv {
			if a == "-o" && i+1 < len(inv.Argv) && reTmpDir.MatchString(inv.Argv[i+1]) {
				d := reTmpDir.FindString(inv.Argv[i+1])
				if d != res.Dir {
					os.RemoveAll(d)
				}
			}
		}
	}
	return res
}

var (
	reTmpDir = regexp.MustCompile(`^/tmp/[A-Za-z0-9]{10}/`)
	reTmpObj = regexp.MustCompile(`^/tmp/[A-Za-z0-9]{10}/[A-Za-z0-9]{10}\.o$`)
	reTmpOut = regexp.MustCompile(`^/tmp/[A-Za-z0-9]{10}/`)
)

// normalise replaces the random parts of an argv (compile directory, object names).
func normalise(invs []invocation) [][]string {
	out := make([][]string, len(invs))
	for i, inv := range invs {
		a := make([]string, len(inv.Argv))
		for j, x := range inv.Argv {
			switch {
			case reTmpObj.MatchString(x):
				x = "/tmp/<dir>/<obj>.o"
			case reTmpOut.MatchString(x):
				x = "/tmp/<dir>/" + x[len("/tmp/0123456789/"):]
			}
			a[j] = x
		}
		out[i] = a
	}
	return out
}

const svcPrefix = "-DSERVICE_NAME="

// cLiteral decodes a C string literal body; ok=false when it is not one.
func cLiteral(s string) (string, bool) {
	if len(s) < 2 || s[0] != '"' || s[len(s)-1] != '"' {
		return "", false
	}
	s = s[1 : len(s)-1]
	var b strings.Builder
	for i := 0; i < len(s); i++ {
		c := s[i]
		if c == '"' {
			return "", false // unescaped quote inside the literal
		}
		if c != '\\' {
			b.WriteByte(c)
			continue
		}
		i++
		if i >= len(s) {
			return "", false
		}
		switch s[i] {
		case 'n':
			b.WriteByte('\n')
		case 't':
			b.WriteByte('\t')
		case 'r':
			b.WriteByte('\r')
		case '\\', '"', '\'', '?':
			b.WriteByte(s[i])
		case 'x':
			v, n := 0, 0
			for i+1 < len(s) && n < 2 && strings.IndexByte("0123456789abcdefABCDEF", s[i+1]) >= 0 {
				i++
				n++
				v = v*16 + strings.IndexByte("0123456789abcdef", strings.ToLower(s[i : i+1])[0])
			}
			if n == 0 {
				return "", false
			}
			b.WriteByte(byte(v))
		default:
			if s[i] >= '0' && s[i] <= '7' {
				v, n := int(s[i]-'0'), 1
				for i+1 < len(s) && n < 3 && s[i+1] >= '0' && s[i+1] <= '7' {
					i++
					n++
					v = v*8 + int(s[i]-'0')
				}
				b.WriteByte(byte(v))
			} else {
				return "", false
			}
		}
	}
	return b.String(), true
}

func parseConfigBytes(def string) ([]byte, bool) {
	if !strings.HasPrefix(def, "{") || !strings.HasSuffix(def, "}") {
		return nil, false
	}
	body := def[1 : len(def)-1]
	if body == "" {
		return nil, true
	}
	var out []byte
	for _, t := range strings.Split(body, ",") {
		if len(t) != 4 || !strings.HasPrefix(t, "0x") {
			return nil, false
		}
		v, err := hex.DecodeString(t[2:])
		if err != nil {
			return nil, false
		}
		out = append(out, v[0])
	}
	return out, true
}

type buildDetail struct {
	Case     buildCase   `json:"case"`
	Result   buildResult `json:"result"`
	Baseline [][]string  `json:"baseline_argv_same_build_with_service_name_svc,omitempty"`
	Note     string      `json:"note,omitempty"`
}

type buildChecker struct {
	r *ev.Run
	k Constants
	s *sandbox
}

func isNasm(inv invocation) bool { return len(inv.Argv) > 0 && filepath.Base(inv.Argv[0]) == "nasm" }
func compiles(invs []invocation) []invocation {
	var out []invocation
	for _, i := range invs {
		if !isNasm(i) {
			out = append(out, i)
		}
	}
	return out
}

func has(argv []string, a string) bool {
	for _, x := range argv {
		if x == a {
			return true
		}
	}
	return false
}

func hasPair(argv []string, a, b string) bool {
	for i := 0; i+1 < len(argv); i++ {
		if argv[i] == a && argv[i+1] == b {
			return true
		}
	}
	return false
}

// baseline checks a build with the benign service name "svc": the shape of the
// command and the configuration it carries.
func (bc *buildChecker) baseline(c buildCase, res buildResult) {
	r := bc.r
	tag := formatName[c.Format]
	det := buildDetail{Case: c, Result: res}
	if res.Panic != "" {
		r.Violate("build/panic/"+ev.Normalize(res.Panic), "Build panics", det)
		return
	}
	if len(res.NewFiles) > 0 || len(res.Gone) > 0 {
		r.Violate("build/source-tree-modified/"+tag, "a build changed the source tree / working directory", det)
	}
	if !res.OK {
		r.Violate("build/failed/"+tag, "Build() fails for a valid configuration although every tool exits 0", det)
		return
	}
	cs := compiles(res.Invs)
	if len(cs) != 1 {
		r.Violate("build/compiler-invocations/"+tag, fmt.Sprintf("%d compiler invocations for one payload", len(cs)), det)
		return
	}
	argv := cs[0].Argv
	if cs[0].Cwd != bc.s.demon {
		r.Violate("build/compiler-cwd", "the compiler does not run in the Demon source directory", det)
	}
	// compiler of the chosen architecture
	wantCC := bc.s.cc64
	wantAsm, wantFmt := bc.s.asm[builder.ARCHITECTURE_X64], "win64"
	if c.Arch == builder.ARCHITECTURE_X86 {
		wantCC, wantAsm, wantFmt = bc.s.cc86, bc.s.asm[builder.ARCHITECTURE_X86], "win32"
	}
	if argv[0] != wantCC {
		r.Violate("build/compiler-for-arch", "the payload is compiled with the other architecture's compiler", det)
	}
	asmSeen := map[string]bool{}
	for _, inv := range res.Invs {
		if isNasm(inv) {
			if !hasPair(inv.Argv, "-f", wantFmt) {
				r.Violate("build/nasm-format-for-arch", "nasm object format does not match the architecture", det)
			}
			for _, a := range inv.Argv[1:] {
				if strings.HasSuffix(a, ".asm") {
					asmSeen[a] = true
				}
			}
		}
	}
	for _, f := range wantAsm {
		if !asmSeen[f] {
			r.Violate("build/asm-missing", "an assembly source of the architecture is not assembled", det)
		}
	}
	for f := range asmSeen {
		ok := false
		for _, w := range wantAsm {
			ok = ok || w == f
		}
		if !ok {
			r.Violate("build/asm-of-other-arch", "an assembly source of the other architecture is assembled", det)
		}
	}
	// defines
	wantT, otherT := "-DTRANSPORT_HTTP", "-DTRANSPORT_SMB"
	if c.Transport == TransportSMB {
		wantT, otherT = otherT, wantT
	}
	if !has(argv, wantT) || has(argv, otherT) {
		r.Violate("build/transport-define", "the transport define does not match the listener type (the Demon would read the configuration with the other layout)", det)
	}
	if has(argv, "-DDEBUG") != c.Debug {
		r.Violate("build/debug-define", "DEBUG define does not follow the debug setting", det)
	}
	if has(argv, "-DSEND_LOGS") != c.SendLogs {
		r.Violate("build/sendlogs-define", "SEND_LOGS define does not follow the send-logs setting", det)
	}
	// the configuration
	var cfgDefs []string
	var svcDefs []string
	for _, a := range argv {
		if strings.HasPrefix(a, "-DCONFIG_BYTES=") {
			cfgDefs = append(cfgDefs, a[len("-DCONFIG_BYTES="):])
		}
		if strings.HasPrefix(a, svcPrefix) {
			svcDefs = append(svcDefs, a[len(svcPrefix):])
		}
	}
	if len(cfgDefs) != 1 {
		r.Violate("build/config-define-count", fmt.Sprintf("%d CONFIG_BYTES defines", len(cfgDefs)), det)
		return
	}
	raw, ok := parseConfigBytes(cfgDefs[0])
	if !ok {
		r.Violate("build/config-define-syntax", "CONFIG_BYTES is not a C byte-array initialiser", det)
		return
	}
	o := buildOptions(c)
	l := buildListener(c.Transport)
	want := Expect(bc.k, o, l)
	for _, df := range Compare(ReadConfig(raw, c.Transport), want, c.Transport) {
		sig := "build/config-bytes/field/" + df.Field
		if df.Sig != "" {
			sig += "/" + df.Sig
		}
		r.Violate(sig, fmt.Sprintf("compiled-in configuration: the Demon reads %s = %s, chosen %s", df.Field, df.Got, df.Want), det)
	}
	ltype, lobj := realListener(l)
	if p := patch(o.JSON(), o, ltype, lobj); !p.OK || hex.EncodeToString(p.Bytes) != hex.EncodeToString(raw) {
		r.Violate("build/config-bytes/differ-from-PatchConfig", "the bytes handed to the compiler are not the bytes PatchConfig() returns", det)
	}
	// service name
	if c.Format == builder.FILETYPE_WINDOWS_SERVICE_EXE {
		if len(svcDefs) != 1 {
			r.Violate("build/servicename/define-count", fmt.Sprintf("%d SERVICE_NAME defines for a service executable", len(svcDefs)), det)
		} else if v, ok := cLiteral(svcDefs[0]); !ok || v != c.Name {
			r.Violate("build/servicename/value/plain", "the service name define does not carry the chosen name", det)
		}
		if !hasPair(argv, "-D", "SVC_EXE") {
			r.Violate("build/servicename/svc-exe-define", "a service executable is compiled without SVC_EXE", det)
		}
	} else if len(svcDefs) != 0 {
		r.Violate("build/servicename/unexpected", "SERVICE_NAME defined for a non-service format", det)
	}
	// output
	if c.Format != builder.FILETYPE_WINDOWS_RAW_BINARY && (!hasPair(argv, "-o", res.OutPath) || !strings.HasPrefix(res.OutPath, res.Dir)) {
		r.Violate("build/output-path", "the compiler output is not the builder's output path in its compile directory", det)
	}
	wantPayload := "STUBOUT " + filepath.Base(wantCC) + "\n"
	if c.Format == builder.FILETYPE_WINDOWS_RAW_BINARY {
		wantPayload = string(bc.s.tpl[c.Arch]) + wantPayload
	}
	if string(res.Payload) != wantPayload {
		r.Violate("build/payload-bytes/"+tag, "GetPayloadBytes() is not the compiler's output (shellcode: template + dll)", det)
	}
	r.Outcome(fmt.Sprintf("build/ok/%s/arch=%d/debug=%v/logs=%v/t=%d", tag, c.Arch, c.Debug, c.SendLogs, c.Transport))
}

// named checks a build with an arbitrary service name against the baseline of the
// same build: nothing but the SERVICE_NAME argument may differ, nothing may run.
func (bc *buildChecker) named(c buildCase, res buildResult, base [][]string) {
	r := bc.r
	det := buildDetail{Case: c, Result: res, Baseline: base}
	if res.Panic != "" {
		r.Violate("build/panic/"+ev.Normalize(res.Panic), "Build panics", det)
		return
	}
	if len(res.NewFiles) > 0 || len(res.Gone) > 0 {
		r.Violate("build/servicename/command-executed/"+c.NameClass,
			"the service name was interpreted by the shell: files appeared/disappeared in the source directory", det)
		r.Outcome("build/servicename/executed/" + c.NameClass)
		return
	}
	got := normalise(res.Invs)
	if !res.OK && len(compiles(res.Invs)) == 0 {
		// the name was refused before anything ran: allowed
		r.Outcome("build/servicename/refused/" + c.NameClass)
		return
	}
	bad := ""
	if len(got) != len(base) {
		bad = fmt.Sprintf("%d tool invocations instead of %d", len(got), len(base))
	}
	for i := 0; bad == "" && i < len(got); i++ {
		if len(got[i]) != len(base[i]) {
			bad = fmt.Sprintf("invocation %d has %d arguments instead of %d", i, len(got[i]), len(base[i]))
			break
		}
		for j := range got[i] {
			g, b := got[i][j], base[i][j]
			if strings.HasPrefix(b, svcPrefix) {
				v, ok := cLiteral(strings.TrimPrefix(g, svcPrefix))
				switch {
				case !strings.HasPrefix(g, svcPrefix):
					bad = "the SERVICE_NAME argument is gone"
				case c.Name == "":
					if !ok || !regexp.MustCompile(`^[A-Za-z0-9]+$`).MatchString(v) {
						bad = "no name chosen, but the generated one is not a plain identifier"
					}
				case g == svcPrefix+`"`+c.Name+`"`:
					// the name byte for byte between the quotes
				case ok && v == c.Name:
					// the name as a C string literal with escapes
				default:
					bad = "the SERVICE_NAME argument does not carry the name: " + g
				}
			} else if g != b {
				bad = fmt.Sprintf("argument %d of invocation %d changed from %q to %q", j, i, b, g)
			}
			if bad != "" {
				break
			}
		}
	}
	if bad != "" {
		det.Note = bad
		r.Violate("build/servicename/not-passed-as-data/"+c.NameClass, "the service name changes the compiler command line beyond its own argument: "+bad, det)
		r.Outcome("build/servicename/altered/" + c.NameClass)
		return
	}
	r.Outcome("build/servicename/data/" + c.NameClass)
}

var serviceNames = [][2]string{ // class, name
	{"empty", ""},
	{"space", "My Service"},
	{"semicolon", "a;touch CANARY;"},
	{"dollar-paren", "$(touch CANARY)"},
	{"backtick", "`touch CANARY`"},
	{"pipe", "a|touch CANARY;"},
	{"and-and", "a&&touch CANARY;#"},
	{"newline", "a\ntouch CANARY\n"},
	{"redirect", "a>CANARY"},
	{"dquote", `a"b`},
	{"dquote-breakout", `a";touch CANARY;"`},
	{"squote", "a'b"},
	{"squote-breakout", "a';touch CANARY;'"},
	{"backslash", `a\`},
	{"backslash-dquote", `a\";touch CANARY;\"`},
	{"variable", "$HOME"},
	{"glob", "*"},
	{"hash", "a #b"},
}

// breakoutNames: every way of leaving a quoted context (all sequences of up to two of
// ' " \) followed by a command and by every way of neutralising the rest of the line
// (nothing, a comment, a re-opened quote of either kind).  A break-out whose remainder is
// a syntax error runs nothing (sh parses the line first) - the comment and the
// re-balanced forms are the ones that execute.
func breakoutNames() [][2]string {
	var out [][2]string
	quotes := []string{"'", `"`, `\`}
	var seqs []string
	for _, a := range quotes {
		seqs = append(seqs, a)
		for _, b := range quotes {
			seqs = append(seqs, a+b)
		}
	}
	closers := map[string]string{"none": "", "comment": "#", "reopen-squote": "echo '", "reopen-dquote": `echo "`, "reopen-both": `echo "'`, "reopen-both2": `echo '"`}
	var cn []string
	for k := range closers {
		cn = append(cn, k)
	}
	sort.Strings(cn)
	for _, q := range seqs {
		for _, k := range cn {
			cls := "breakout/" + strings.NewReplacer("'", "s", `"`, "d", `\`, "b").Replace(q) + "/" + k
			out = append(out, [2]string{cls, "x" + q + ";touch CANARY;" + closers[k]})
		}
	}
	return out
}

func runBuild(r *ev.Run, k Constants, wi, wn int, deadline time.Time) {
	s, err := newSandbox()
	defer s.close()
	if err != nil {
		r.NotExhaustive("part 3 (command construction) not run: " + err.Error())
		return
	}
	if err := os.Chdir(s.root); err != nil {
		r.NotExhaustive("part 3 not run: " + err.Error())
		return
	}
	os.Setenv("STUBCC_LOG", s.log)
	os.Unsetenv("STUBCC_EXIT")
	bc := &buildChecker{r: r, k: k, s: s}
	capped := false
	combo := -1
	for _, format := range vFormat {
		for _, arch := range vArch {
			for _, debug := range []bool{false, true} {
				for _, logs := range []bool{false, true} {
					for _, tr := range []int{TransportHTTP, TransportSMB} {
						combo++
						if combo%wn != wi {
							continue
						}
						if !deadline.IsZero() && time.Now().After(deadline) {
							capped = true
							continue
						}
						c := buildCase{Format: format, Arch: arch, Debug: debug, SendLogs: logs, Transport: tr, Name: "svc", NameClass: "plain"}
						res := s.run(c)
						if !res.OK && len(res.Invs) == 0 && len(res.Msgs) == 0 && res.Panic == "" {
							// Build() names its compile directory /tmp/<10 characters drawn from a
							// generator seeded with the clock>; an existing directory makes it give
							// up silently before doing anything.  Not the property: once more.
							res = s.run(c)
						}
						r.Eval(1)
						bc.baseline(c, res)
						if r.WantSample() && format == builder.FILETYPE_WINDOWS_SERVICE_EXE {
							r.Sample(map[string]any{"part": "build", "case": c, "argv": normalise(res.Invs)})
						}
						if tr == TransportHTTP && !debug && !logs {
							for _, bad := range badListeners {
								c3 := c
								c3.BadHTTP = bad
								res3 := s.run(c3)
								r.Eval(1)
								if res3.OK || len(compiles(res3.Invs)) > 0 {
									r.Violate("build/unencodable-listener-built/"+bad, "Build() compiles / returns a payload for a listener setting the payload cannot carry", buildDetail{Case: c3, Result: res3})
									r.Outcome("build/unencodable-built/" + bad)
								} else {
									r.Outcome("build/unencodable-refused/" + bad)
								}
							}
						}
						if format != builder.FILETYPE_WINDOWS_SERVICE_EXE || !res.OK {
							continue
						}
						base := normalise(res.Invs)
						names := serviceNames
						if r.Thorough() || (!debug && !logs && tr == TransportHTTP) {
							// the break-out product: every build combination in thorough, one per architecture in quick
							names = append(append([][2]string{}, serviceNames...), breakoutNames()...)
						}
						for _, n := range names {
							c2 := c
							c2.NameClass, c2.Name = n[0], n[1]
							res2 := s.run(c2)
							r.Eval(1)
							bc.named(c2, res2, base)
						}
					}
				}
			}
		}
	}
	if capped {
		r.Extra["capped: part 3 (command construction) stopped at the internal deadline"] = true
	}
}
