package c13

// The Demon's side of the build: DemonConfig() of payloads/Demon/src/Demon.c and the
// PARSER of payloads/Demon/src/core/Parser.c, transcribed statement by statement.
// Nothing here imports the teamserver: this is the reference the bytes produced by
// builder.PatchConfig() are judged against.

import (
	"encoding/binary"
	"unicode/utf16"
)

const (
	TransportHTTP = 1 // #ifdef TRANSPORT_HTTP
	TransportSMB  = 2 // #ifdef TRANSPORT_SMB
)

// parser is PARSER with Endian == 0 (ParserNew does not set it: little endian).
// The C reader has no bounds check in ParserGetBytes; where the C code would read
// past AgentConfig the transcription sets overrun and stops.
type parser struct {
	buf     []byte
	pos     int
	overrun bool
}

func (p *parser) rem() int { return len(p.buf) - p.pos }

// ParserGetInt32: returns 0 without advancing when fewer than 4 bytes remain.
func (p *parser) i32() int32 {
	if p.overrun || p.rem() < 4 {
		p.overrun = true
		return 0
	}
	v := binary.LittleEndian.Uint32(p.buf[p.pos:])
	p.pos += 4
	return int32(v)
}

// ParserGetInt64.
func (p *parser) i64() int64 {
	if p.overrun || p.rem() < 8 {
		p.overrun = true
		return 0
	}
	v := binary.LittleEndian.Uint64(p.buf[p.pos:])
	p.pos += 8
	return int64(v)
}

// ParserGetBytes: 4 byte length, then that many bytes.
func (p *parser) bytes() []byte {
	if p.overrun || p.rem() < 4 {
		p.overrun = true
		return nil
	}
	n := binary.LittleEndian.Uint32(p.buf[p.pos:])
	p.pos += 4
	if uint64(n) > uint64(p.rem()) {
		p.overrun = true
		return nil
	}
	b := p.buf[p.pos : p.pos+int(n)]
	p.pos += int(n)
	return b
}

// WStr is a wide string field as the Demon ends up holding it.  The Demon copies
// Length bytes into a zeroed allocation of either Length+sizeof(WCHAR) bytes
// (MmHeapAlloc( Length + sizeof( WCHAR ) ): always terminated) or exactly Length
// bytes (LocalAlloc( LPTR, Length ) / MmHeapAlloc( Length ): terminated only when
// the bytes themselves contain the terminator).  Units is what a wide-string
// function sees: the UTF-16 units before the first NUL.
type WStr struct {
	Length     int      // byte length on the wire
	Units      []uint16 // units before the first NUL unit
	Terminated bool     // a NUL unit ends the string inside the Demon's allocation
}

func (w WStr) String() string { return string(utf16.Decode(w.Units)) }

func wstr(b []byte, slack bool) WStr {
	w := WStr{Length: len(b)}
	for i := 0; i+1 < len(b); i += 2 {
		u := binary.LittleEndian.Uint16(b[i:])
		if u == 0 {
			w.Terminated = true
			return w
		}
		w.Units = append(w.Units, u)
	}
	// no NUL among the copied units: terminated only by the allocation's slack
	w.Terminated = slack
	return w
}

type HostData struct {
	Host WStr
	Port int32
}

// Config is Instance->Config after DemonConfig().
type Config struct {
	Sleeping int32
	Jitter   int32
	Alloc    int32 // Config.Memory.Alloc
	Execute  int32 // Config.Memory.Execute
	Spawn64  WStr
	Spawn86  WStr

	SleepMaskTechnique int32
	SleepJmpBypass     int32
	StackSpoof         int32
	ProxyLoading       int32
	SysIndirect        int32
	AmsiEtwPatch       int32

	KillDate     int64
	WorkingHours uint32

	// TRANSPORT_HTTP
	Method       WStr
	HostRotation int32
	HostsOnWire  int32      // J
	Hosts        []HostData // in wire order; the Demon's list (HostAdd prepends) is the reverse
	HostsSkipped int        // entries with Length == 0 are not added
	Secure       int32
	UserAgent    WStr
	Headers      []WStr
	Uris         []WStr
	ProxyEnabled bool
	ProxyUrl     WStr
	ProxyUser    *WStr // NULL when Length == 0
	ProxyPass    *WStr

	// TRANSPORT_SMB
	PipeName WStr

	Overrun bool // the C reader would have run past sizeof( AgentConfig )
	Residue int  // bytes of AgentConfig never read
}

// ReadConfig is DemonConfig() for a Demon compiled with the given transport define.
func ReadConfig(agentConfig []byte, transport int) *Config {
	p := &parser{buf: agentConfig}
	c := &Config{}

	c.Sleeping = p.i32()
	c.Jitter = p.i32()

	c.Alloc = p.i32()
	c.Execute = p.i32()

	c.Spawn64 = wstr(p.bytes(), false) // LocalAlloc( LPTR, Length )
	c.Spawn86 = wstr(p.bytes(), false)

	c.SleepMaskTechnique = p.i32()
	c.SleepJmpBypass = p.i32()
	c.StackSpoof = p.i32()
	c.ProxyLoading = p.i32()
	c.SysIndirect = p.i32()
	c.AmsiEtwPatch = p.i32()

	switch transport {
	case TransportHTTP:
		c.KillDate = p.i64()
		c.WorkingHours = uint32(p.i32())

		c.Method = wstr(p.bytes(), true) // MmHeapAlloc( Length + sizeof( WCHAR ) )

		c.HostRotation = p.i32()

		c.HostsOnWire = p.i32()
		for i := uint32(0); i < uint32(c.HostsOnWire) && !p.overrun; i++ {
			b := p.bytes()
			port := p.i32()
			if p.overrun {
				break
			}
			if len(b) > 0 {
				c.Hosts = append(c.Hosts, HostData{Host: wstr(b, true), Port: port}) // HostAdd: Size + sizeof( WCHAR )
			} else {
				c.HostsSkipped++
			}
		}

		c.Secure = p.i32()
		c.UserAgent = wstr(p.bytes(), true)

		j := p.i32()
		for i := uint32(0); i < uint32(j) && !p.overrun; i++ {
			b := p.bytes()
			if p.overrun {
				break
			}
			c.Headers = append(c.Headers, wstr(b, true))
		}

		j = p.i32()
		for i := uint32(0); i < uint32(j) && !p.overrun; i++ {
			b := p.bytes()
			if p.overrun {
				break
			}
			c.Uris = append(c.Uris, wstr(b, true))
		}

		c.ProxyEnabled = p.i32() != 0
		if c.ProxyEnabled {
			c.ProxyUrl = wstr(p.bytes(), true)
			if b := p.bytes(); len(b) > 0 {
				w := wstr(b, false) // MmHeapAlloc( Length )
				c.ProxyUser = &w
			}
			if b := p.bytes(); len(b) > 0 {
				w := wstr(b, false)
				c.ProxyPass = &w
			}
		}

	case TransportSMB:
		c.PipeName = wstr(p.bytes(), false) // LocalAlloc( LPTR, Length )
		c.KillDate = p.i64()
		c.WorkingHours = uint32(p.i32())
	}

	c.Overrun = p.overrun
	c.Residue = p.rem()
	return c
}

// --- working hours, the Demon's view (src/core/Command.c InWorkingHours) -----------

// UnpackHours is the bit layout InWorkingHours()/SleepTime() use.
func UnpackHours(w uint32) (enabled bool, sh, sm, eh, em int) {
	enabled = (w>>22)&1 != 0
	sh = int((w >> 17) & 0b011111)
	sm = int((w >> 11) & 0b111111)
	eh = int((w >> 6) & 0b011111)
	em = int((w >> 0) & 0b111111)
	return
}

// InWorkingHours is InWorkingHours() at local time hour:minute.
func InWorkingHours(w uint32, hour, minute int) bool {
	enabled, sh, sm, eh, em := UnpackHours(w)
	if !enabled {
		return true
	}
	if hour < sh || hour > eh {
		return false
	}
	if hour == sh && minute < sm {
		return false
	}
	if hour == eh && minute > em {
		return false
	}
	return true
}

// WindowMinutes counts the minutes of a day in which the Demon considers itself
// inside working hours.  0 means a Demon with a non-zero sleep never calls home.
func WindowMinutes(w uint32) int {
	n := 0
	for h := 0; h < 24; h++ {
		for m := 0; m < 60; m++ {
			if InWorkingHours(w, h, m) {
				n++
			}
		}
	}
	return n
}
