package c13

import (
	"fmt"
	"math/big"
	"time"

	"Havoc/pkg/common"

	"verifmc/ev"
)

// Part 2b: the kill date.  A listener's KillDate is written in the profile as
// "2006-01-02 15:04:05" and converted once (common.EpochTimeToSystemTime) into the
// FILETIME that PatchConfig copies into the payload (parts 1 and 3 cover the copy).  For
// every date of the boundary set the converted value, read the way the Demon reads it
// (100 ns ticks since 1601-01-01), is the operator's instant.
func runKillDates(r *ev.Run) {
	dates := []string{
		"1970-01-01 00:00:01", "2001-09-09 01:46:40", "2024-06-30 12:00:00",
		"2038-01-19 03:14:07", "2038-01-19 03:14:08", "2106-02-07 06:28:15", "2106-02-07 06:28:16",
		"2262-04-11 23:47:16", "2262-04-11 23:47:17", "2300-01-01 00:00:00", "2999-12-31 23:59:59", "9999-12-31 23:59:59",
	}
	r.Bounds["kill_dates"] = dates
	filetimeEpoch := time.Date(1601, 1, 1, 0, 0, 0, 0, time.UTC)
	for _, d := range dates {
		t, err := time.Parse("2006-01-02 15:04:05", d)
		if err != nil {
			panic(err)
		}
		got := common.EpochTimeToSystemTime(t.Unix())
		r.Eval(1)
		// reference: whole seconds between 1601-01-01 and the date, times 10^7, in big integers
		secs := new(big.Int).SetInt64(t.Unix() - filetimeEpoch.Unix())
		want := new(big.Int).Mul(secs, big.NewInt(10000000))
		class := "year<2262"
		if t.Year() >= 2262 {
			class = "year>=2262"
		}
		if want.IsInt64() && got != want.Int64() {
			r.Violate("killdate/conversion/"+class, fmt.Sprintf("kill date %s is converted to the FILETIME %d, the instant is %s ticks after 1601-01-01", d, got, want), map[string]any{"date": d, "got": got, "want": want.String()})
		}
		r.Outcome("killdate/" + class)
	}
}
