package c13

// Part 2: working hours.  Every string H:M-H:M with H in 0..29 and M in 0..69, each
// number in its plain and (below 10) its zero-padded two-digit spelling, plus
// malformed shapes, through the real common.ParseWorkingHours; the packed word is
// unpacked with the Demon's bit layout.

import (
	"fmt"
	"strings"
	"time"

	"Havoc/pkg/common"

	"verifmc/ev"
)

func spellings(max int) []string {
	var out []string
	for v := 0; v <= max; v++ {
		out = append(out, fmt.Sprintf("%d", v))
		if v < 10 {
			out = append(out, fmt.Sprintf("%02d", v))
		}
	}
	return out
}

type hoursDetail struct {
	Input    string `json:"working_hours"`
	Class    string `json:"reference_class"`
	Accepted bool   `json:"accepted"`
	Word     string `json:"packed_word,omitempty"`
	Unpacked []int  `json:"demon_unpacks,omitempty"`
	Window   int    `json:"minutes_per_day_inside_working_hours"`
	Error    string `json:"error,omitempty"`
}

func hoursShape(cls HoursClass, sh, sm, eh, em int) string {
	// narrow, deterministic trigger class for signatures
	var f []string
	if sh >= 24 {
		f = append(f, "start-hour>=24")
	}
	if eh >= 24 {
		f = append(f, "end-hour>=24")
	}
	if sm >= 60 {
		f = append(f, "start-minute>=60")
	}
	if em >= 60 {
		f = append(f, "end-minute>=60")
	}
	if sh > eh || (sh == eh && sm > em) {
		f = append(f, "start>end")
	}
	if len(f) == 0 {
		return "plain"
	}
	return strings.Join(f, "+")
}

func checkHours(r *ev.Run, s string) {
	cls, sh, sm, eh, em := ClassifyHours(s)
	var (
		word     int32
		err      error
		panicked string
	)
	func() {
		defer func() {
			if p := recover(); p != nil {
				panicked = fmt.Sprint(p)
			}
		}()
		word, err = common.ParseWorkingHours(s)
	}()
	r.Eval(1)
	det := hoursDetail{Input: s, Class: cls.String(), Accepted: err == nil}
	if panicked != "" {
		det.Error = "panic: " + panicked
		r.Violate("hours/panic/"+ev.Normalize(panicked), "ParseWorkingHours panics", det)
		return
	}
	if err != nil {
		det.Error = err.Error()
		r.Outcome("hours/rejected/" + cls.String())
		if cls == HoursCanonical || cls == HoursDisabled {
			r.Violate("hours/rejected/"+cls.String(), "a valid working-hours setting in the documented spelling is refused", det)
		}
		return
	}
	w := uint32(word)
	en, a, b, c, d := UnpackHours(w)
	det.Word = fmt.Sprintf("%#x", w)
	det.Unpacked = []int{a, b, c, d}
	det.Window = WindowMinutes(w)
	r.Outcome("hours/accepted/" + cls.String())
	switch cls {
	case HoursDisabled:
		if w != 0 {
			r.Violate("hours/empty-string/not-disabled", "no working hours configured, but the word is not 0", det)
		}
		return
	case HoursMalformed:
		r.Violate("hours/accepted/malformed", "a string that is not H:M-H:M is accepted as working hours", det)
		return
	}
	if !en || a != sh || b != sm || c != eh || d != em || w>>23 != 0 {
		r.Violate("hours/roundtrip/"+hoursShape(cls, sh, sm, eh, em), fmt.Sprintf("the Demon unpacks %d:%d-%d:%d (enabled=%v) from %q", a, b, c, d, en, s), det)
		return
	}
	if cls == HoursImpossible {
		what := "accepted working hours in which the Demon is never inside its window (it never calls home)"
		r.Violate("hours/accepted/never-in-window/"+hoursShape(cls, sh, sm, eh, em), what, det)
	}
	if r.WantSample() && cls == HoursCanonical && sh == 8 && sm == 30 {
		r.Sample(map[string]any{"part": "hours", "case": det})
	}
}

// malformedHours lists the shapes outside the H:M-H:M grammar: a fixed list, every
// string of length <= 6 over {1 2 : -}, and every single-character edit (delete,
// replace, insert over a small alphabet) of two valid strings.
func malformedHours() []string {
	seen := map[string]bool{}
	var out []string
	add := func(s string) {
		if !seen[s] {
			seen[s] = true
			out = append(out, s)
		}
	}
	for _, s := range []string{"", " ", "8:00", "8:00-", "-17:00", "8:00-17:00 ", " 8:00-17:00", "8:00-17:00\n", "\n8:00-17:00",
		"8:00–17:00", "8.00-17.00", "8:00-17:00-18:00", "8:00:00-17:00:00", "a:00-17:00", "+8:00-17:00", "-8:00-17:00",
		"8:00--17:00", "100:00-101:00", "8:000-17:00", "٨:٠٠-١٧:٠٠", "8:00-17:00\x00", "8:00-17:00\n9:00-10:00", "x\n8:00-17:00",
		"8:00 - 17:00", "8h00-17h00", "0x8:00-17:00", "8:00-17:00;", "８:００-１７:００"} {
		add(s)
	}
	alpha := []byte{'1', '2', ':', '-'}
	var rec func(prefix []byte)
	rec = func(prefix []byte) {
		add(string(prefix))
		if len(prefix) == 6 {
			return
		}
		for _, c := range alpha {
			rec(append(prefix, c))
		}
	}
	rec(nil)
	edits := []byte{'0', '9', ':', '-', ' ', 'a', '\n'}
	for _, base := range []string{"8:00-17:00", "10:30-23:59"} {
		for i := 0; i <= len(base); i++ {
			for _, c := range edits {
				add(base[:i] + string(c) + base[i:]) // insert
				if i < len(base) {
					add(base[:i] + string(c) + base[i+1:]) // replace
				}
			}
			if i < len(base) {
				add(base[:i] + base[i+1:]) // delete
			}
		}
	}
	return out
}

// hourStrings enumerates this worker's share of the grammar.  thorough: every
// combination of spellings (40 x 80 x 40 x 80).  quick: every combination of plain
// spellings (30 x 70 x 30 x 70) and, for every non-empty set of zero-padded
// positions, all padded values 00..09 there against a boundary set of plain values
// elsewhere.
func hourStrings(thorough bool, wi, wn int, stop func() bool, visit func(string)) {
	var sb strings.Builder
	emit := func(a, b, c, d string) {
		sb.Reset()
		sb.WriteString(a)
		sb.WriteByte(':')
		sb.WriteString(b)
		sb.WriteByte('-')
		sb.WriteString(c)
		sb.WriteByte(':')
		sb.WriteString(d)
		visit(sb.String())
	}
	if thorough {
		hs, ms := spellings(29), spellings(69)
		for i := wi; i < len(hs)*len(ms) && !stop(); i += wn {
			for _, eh := range hs {
				for _, em := range ms {
					emit(hs[i/len(ms)], ms[i%len(ms)], eh, em)
				}
			}
		}
		return
	}
	plain := func(max int) []string {
		var o []string
		for v := 0; v <= max; v++ {
			o = append(o, fmt.Sprintf("%d", v))
		}
		return o
	}
	hs, ms := plain(29), plain(69)
	for i := wi; i < len(hs)*len(ms) && !stop(); i += wn {
		for _, eh := range hs {
			for _, em := range ms {
				emit(hs[i/len(ms)], ms[i%len(ms)], eh, em)
			}
		}
	}
	var padded []string
	for v := 0; v < 10; v++ {
		padded = append(padded, fmt.Sprintf("%02d", v))
	}
	hb := []string{"0", "9", "10", "23", "24", "29"}
	mb := []string{"0", "9", "10", "59", "60", "63", "64", "69"}
	n := 0
	for mask := 1; mask < 16; mask++ {
		set := func(bit int, b []string) []string {
			if mask&bit != 0 {
				return padded
			}
			return b
		}
		for _, a := range set(1, hb) {
			for _, b := range set(2, mb) {
				n++
				if n%wn != wi || stop() {
					continue
				}
				for _, c := range set(4, hb) {
					for _, d := range set(8, mb) {
						emit(a, b, c, d)
					}
				}
			}
		}
	}
}

func runHours(r *ev.Run, wi, wn int, deadline time.Time) {
	capped := false
	stop := func() bool {
		if !deadline.IsZero() && time.Now().After(deadline) {
			capped = true
		}
		return capped
	}
	hourStrings(r.Thorough(), wi, wn, stop, func(s string) { checkHours(r, s) })
	mal := malformedHours()
	for i := wi; i < len(mal); i += wn {
		checkHours(r, mal[i])
	}
	if capped {
		r.Extra["capped: part 2 (working hours) stopped at the internal deadline"] = true
	}
}
