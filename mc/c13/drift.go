package c13

// Drift guard for the transcription in readconfig.go: the order and kind of the
// reads in DemonConfig() is re-extracted from the Demon.c of the tree under test and
// compared with the order ReadConfig() was transcribed from.  A difference means
// the reference reader is stale and no verdict of part 1 can be trusted.

import (
	"os"
	"path/filepath"
	"regexp"
	"strings"
)

const transcribedReadOrder = "Int32 Int32 Int32 Int32 Bytes Bytes Int32 Int32 Int32 Int32 Int32 Int32 " +
	"IFHTTP IFHTTP Int64 Int32 Bytes Int32 Int32 FOR Bytes Int32 Int32 Bytes Int32 FOR Bytes Int32 FOR Bytes Int32 Bytes Bytes Bytes " +
	"IFSMB Bytes Int64 Int32"

var reReadTok = regexp.MustCompile(`ParserGet\w+|for\s*\(|#ifdef\s+TRANSPORT_HTTP|#ifdef\s+TRANSPORT_SMB`)

// ReadOrder extracts the read order of DemonConfig() from Demon.c ("" + reason when
// the function cannot be found).
func ReadOrder(demonDir string) (string, string) {
	b, err := os.ReadFile(filepath.Join(demonDir, "src", "Demon.c"))
	if err != nil {
		return "", err.Error()
	}
	s := string(b)
	i := strings.Index(s, "VOID DemonConfig()\n{")
	if i < 0 {
		return "", "VOID DemonConfig() not found in Demon.c"
	}
	body := s[i:]
	j := strings.Index(body, "\n}\n")
	if j < 0 {
		return "", "end of DemonConfig() not found"
	}
	var out []string
	for _, t := range reReadTok.FindAllString(body[:j], -1) {
		switch {
		case strings.HasPrefix(t, "ParserGet"):
			out = append(out, strings.TrimPrefix(t, "ParserGet"))
		case strings.HasPrefix(t, "for"):
			out = append(out, "FOR")
		case strings.HasSuffix(t, "TRANSPORT_HTTP"):
			out = append(out, "IFHTTP")
		default:
			out = append(out, "IFSMB")
		}
	}
	return strings.Join(out, " "), ""
}

// hoursLayoutDrift checks that InWorkingHours() in Command.c still uses the shifts
// and masks UnpackHours() was transcribed from.
func hoursLayoutDrift(demonDir string) string {
	b, err := os.ReadFile(filepath.Join(demonDir, "src", "core", "Command.c"))
	if err != nil {
		return err.Error()
	}
	s := string(b)
	i := strings.Index(s, "BOOL InWorkingHours(")
	if i < 0 {
		return "InWorkingHours() not found in Command.c"
	}
	body := s[i:]
	if j := strings.Index(body, "\n}\n"); j > 0 {
		body = body[:j]
	}
	squeeze := strings.Join(strings.Fields(body), "")
	for _, want := range []string{
		"((WorkingHours>>22)&1)==0",
		"StartHour=(WorkingHours>>17)&0b011111;",
		"StartMinute=(WorkingHours>>11)&0b111111;",
		"EndHour=(WorkingHours>>6)&0b011111;",
		"EndMinute=(WorkingHours>>0)&0b111111;",
		"if(SystemTime.wHour<StartHour||SystemTime.wHour>EndHour)returnFALSE;",
		"if(SystemTime.wHour==StartHour&&SystemTime.wMinute<StartMinute)returnFALSE;",
		"if(SystemTime.wHour==EndHour&&SystemTime.wMinute>EndMinute)returnFALSE;",
	} {
		if !strings.Contains(squeeze, want) {
			return "InWorkingHours() no longer contains `" + want + "`"
		}
	}
	return ""
}
