package c13

// The specification side: what the operator chose (Options, HTTPListener,
// SMBListener), the Demon's constants (read from the Demon's own headers, with the
// transcribed values as cross-check) and Expect(): the Config a Demon must end up
// with, or that the build must fail.

import (
	"encoding/json"
	"fmt"
	"net"
	"os"
	"path/filepath"
	"regexp"
	"strconv"
	"strings"
	"unicode/utf16"
)

// ---- the Demon's constants ----------------------------------------------------

// Constants holds the numeric values of the Demon's enumerations.
type Constants map[string]int

// transcribed from payloads/Demon/include (core/SleepObf.h, common/Defines.h,
// core/Memory.h, inject/Inject.h, core/TransportHttp.h)
var transcribed = Constants{
	"SLEEPOBF_NO_OBF": 0, "SLEEPOBF_EKKO": 1, "SLEEPOBF_ZILEAN": 2, "SLEEPOBF_FOLIAGE": 3,
	"SLEEPOBF_BYPASS_NONE": 0, "SLEEPOBF_BYPASS_JMPRAX": 1, "SLEEPOBF_BYPASS_JMPRBX": 2,
	"PROXYLOAD_NONE": 0, "PROXYLOAD_RTLREGISTERWAIT": 1, "PROXYLOAD_RTLCREATETIMER": 2, "PROXYLOAD_RTLQUEUEWORKITEM": 3,
	"AMSIETW_PATCH_NONE": 0, "AMSIETW_PATCH_HWBP": 1,
	"DX_MEM_WIN32": 1, "DX_MEM_SYSCALL": 2,
	"DX_THREAD_WIN32": 1, "DX_THREAD_SYSCALL": 2,
	"TRANSPORT_HTTP_ROTATION_ROUND_ROBIN": 0, "TRANSPORT_HTTP_ROTATION_RANDOM": 1,
}

var (
	reDefine = regexp.MustCompile(`(?m)^\s*#define\s+([A-Z0-9_]+)\s+(0x[0-9a-fA-F]+|\d+)\s*(?:/[/*].*)?$`)
	reEnum   = regexp.MustCompile(`(?m)^\s*([A-Z0-9_]+)\s*=\s*(0x[0-9a-fA-F]+|\d+)\s*,`)
)

// LoadConstants reads the constants from the Demon headers of the tree under test;
// a name the headers no longer define keeps the transcribed value (reported).
func LoadConstants(demonDir string) (Constants, []string) {
	found := map[string]int{}
	for _, f := range []string{"core/SleepObf.h", "common/Defines.h", "core/Memory.h", "inject/Inject.h", "core/TransportHttp.h"} {
		b, err := os.ReadFile(filepath.Join(demonDir, "include", f))
		if err != nil {
			continue
		}
		for _, re := range []*regexp.Regexp{reDefine, reEnum} {
			for _, m := range re.FindAllStringSubmatch(string(b), -1) {
				v, err := strconv.ParseInt(m[2], 0, 32)
				if err == nil {
					if _, dup := found[m[1]]; !dup {
						found[m[1]] = int(v)
					}
				}
			}
		}
	}
	c := Constants{}
	var notes []string
	names := make([]string, 0, len(transcribed))
	for k := range transcribed {
		names = append(names, k)
	}
	sortStrings(names)
	for _, k := range names {
		if v, ok := found[k]; ok {
			c[k] = v
			if v != transcribed[k] {
				notes = append(notes, fmt.Sprintf("header value %s=%d differs from transcription %d (header wins)", k, v, transcribed[k]))
			}
		} else {
			c[k] = transcribed[k]
			notes = append(notes, fmt.Sprintf("%s not found in the Demon headers, transcribed value %d used", k, transcribed[k]))
		}
	}
	return c, notes
}

func sortStrings(a []string) {
	for i := 1; i < len(a); i++ {
		for j := i; j > 0 && a[j] < a[j-1]; j-- {
			a[j], a[j-1] = a[j-1], a[j]
		}
	}
}

// ---- the operator's choices -----------------------------------------------------

// Options is the "Config" JSON of a Gate.Stageless request as the client's payload
// dialog (client/src/UserInterface/Dialogs/Payload.cc) produces it: line edits are
// strings, combo boxes strings, check boxes booleans.
type Options struct {
	Sleep       string
	Jitter      string
	Alloc       string
	Execute     string
	Spawn64     string
	Spawn32     string
	Technique   string
	Gadget      string
	StackDup    bool
	ProxyLoad   string
	Syscall     bool
	AmsiEtw     string
	ServiceName string
	Format      int // builder.FILETYPE_*
	Arch        int // builder.ARCHITECTURE_*
}

func (o Options) JSON() string {
	m := map[string]any{
		"Sleep":  o.Sleep,
		"Jitter": o.Jitter,
		"Injection": map[string]any{
			"Alloc": o.Alloc, "Execute": o.Execute, "Spawn64": o.Spawn64, "Spawn32": o.Spawn32,
		},
		"Sleep Technique":   o.Technique,
		"Sleep Jmp Gadget":  o.Gadget,
		"Stack Duplication": o.StackDup,
		"Proxy Loading":     o.ProxyLoad,
		"Indirect Syscall":  o.Syscall,
		"Amsi/Etw Patch":    o.AmsiEtw,
	}
	if o.Format == 2 { // the client adds the field only for "Windows Service Exe"
		m["Service Name"] = o.ServiceName
	}
	b, _ := json.Marshal(m)
	return string(b)
}

// the spec table: option text -> Demon constant name
var (
	specAlloc     = map[string]string{"Win32": "DX_MEM_WIN32", "Native/Syscall": "DX_MEM_SYSCALL"}
	specExecute   = map[string]string{"Win32": "DX_THREAD_WIN32", "Native/Syscall": "DX_THREAD_SYSCALL"}
	specTechnique = map[string]string{"WaitForSingleObjectEx": "SLEEPOBF_NO_OBF", "Foliage": "SLEEPOBF_FOLIAGE", "Ekko": "SLEEPOBF_EKKO", "Zilean": "SLEEPOBF_ZILEAN"}
	specGadget    = map[string]string{"None": "SLEEPOBF_BYPASS_NONE", "jmp rax": "SLEEPOBF_BYPASS_JMPRAX", "jmp rbx": "SLEEPOBF_BYPASS_JMPRBX"}
	specProxyLoad = map[string]string{"None (LdrLoadDll)": "PROXYLOAD_NONE", "RtlRegisterWait": "PROXYLOAD_RTLREGISTERWAIT", "RtlCreateTimer": "PROXYLOAD_RTLCREATETIMER", "RtlQueueWorkItem": "PROXYLOAD_RTLQUEUEWORKITEM"}
	specAmsi      = map[string]string{"None": "AMSIETW_PATCH_NONE", "Hardware breakpoints": "AMSIETW_PATCH_HWBP"}
)

type Proxy struct {
	Enabled                              bool
	Type, Host, Port, Username, Password string
}

// HTTPListener mirrors the settings of handlers.HTTPConfig that reach the payload.
type HTTPListener struct {
	KillDate     int64
	WorkingHours string
	Hosts        []string
	Methode      string
	HostRotation string
	PortBind     string
	PortConn     string
	UserAgent    string
	Headers      []string
	Uris         []string
	HostHeader   string
	Secure       bool
	Proxy        Proxy
}

type SMBListener struct {
	PipeName     string
	KillDate     int64
	WorkingHours string
}

// Listener is one of the two.
type Listener struct {
	HTTP *HTTPListener `json:",omitempty"`
	SMB  *SMBListener  `json:",omitempty"`
}

func (l Listener) Transport() int {
	if l.HTTP != nil {
		return TransportHTTP
	}
	return TransportSMB
}

// ---- working hours reference ---------------------------------------------------

// HoursClass is the reference verdict on a working-hours string.
type HoursClass int

const (
	HoursDisabled   HoursClass = iota // "" : no working hours
	HoursMalformed                    // not <1-2 digits>:<1-2 digits>-<1-2 digits>:<1-2 digits>
	HoursCanonical                    // documented spelling H:MM-H:MM, a real time range, start < end: must be accepted
	HoursValidOther                   // a real time range start < end in another spelling (leading zero hour, one-digit minute): may be accepted
	HoursUnusual                      // hour 24 / minute 60..63 but the Demon's window is not empty and the word round-trips: may be accepted
	HoursImpossible                   // does not fit the bit fields, or start > end, or the Demon's window is empty: must be rejected
)

func (c HoursClass) String() string {
	return [...]string{"disabled", "malformed", "canonical", "valid-other-spelling", "unusual", "impossible"}[c]
}

// PackHours is the layout of the Demon (enabled bit 22, start hour 17..21, start
// minute 11..16, end hour 6..10, end minute 0..5), written from UnpackHours' side.
func PackHours(sh, sm, eh, em int) uint32 {
	return 1<<22 | uint32(sh)<<17 | uint32(sm)<<11 | uint32(eh)<<6 | uint32(em)
}

func isDigits(s string) bool {
	if len(s) < 1 || len(s) > 2 {
		return false
	}
	for i := 0; i < len(s); i++ {
		if s[i] < '0' || s[i] > '9' {
			return false
		}
	}
	return true
}

// ClassifyHours is the naive reference reader of a working-hours string.
func ClassifyHours(s string) (cls HoursClass, sh, sm, eh, em int) {
	if s == "" {
		return HoursDisabled, 0, 0, 0, 0
	}
	halves := strings.Split(s, "-")
	if len(halves) != 2 {
		return HoursMalformed, 0, 0, 0, 0
	}
	a := strings.Split(halves[0], ":")
	b := strings.Split(halves[1], ":")
	if len(a) != 2 || len(b) != 2 || !isDigits(a[0]) || !isDigits(a[1]) || !isDigits(b[0]) || !isDigits(b[1]) {
		return HoursMalformed, 0, 0, 0, 0
	}
	sh, _ = strconv.Atoi(a[0])
	sm, _ = strconv.Atoi(a[1])
	eh, _ = strconv.Atoi(b[0])
	em, _ = strconv.Atoi(b[1])
	fits := sh < 32 && eh < 32 && sm < 64 && em < 64
	if !fits {
		return HoursImpossible, sh, sm, eh, em
	}
	if sh > eh || (sh == eh && sm > em) {
		return HoursImpossible, sh, sm, eh, em
	}
	if WindowMinutes(PackHours(sh, sm, eh, em)) == 0 {
		return HoursImpossible, sh, sm, eh, em
	}
	real := sh <= 23 && eh <= 23 && sm <= 59 && em <= 59
	if !real || (sh == eh && sm == em) {
		// 24:00 as an end, :60 as a minute, or a one-minute window: the statement does
		// not say; either verdict is accepted, an accepted one must round-trip.
		return HoursUnusual, sh, sm, eh, em
	}
	if s == fmt.Sprintf("%d:%02d-%d:%02d", sh, sm, eh, em) {
		return HoursCanonical, sh, sm, eh, em
	}
	return HoursValidOther, sh, sm, eh, em
}

// ---- expectation ---------------------------------------------------------------

type Verdict int

const (
	MustSucceed Verdict = iota
	MayFail             // the statement allows both; a success must still be exact
	MustFail
)

// Want is what the Demon must read.  Alternatives are listed where the statement
// leaves room (documented defaults).
type Want struct {
	Verdict    Verdict
	FailCauses []string // for MustFail: why (each is a signature component)
	MayCauses  []string

	Sleeping, Jitter, Alloc, Execute int32
	Spawn64, Spawn86                 string
	Technique, Gadget, StackSpoof    int32
	GadgetDontCare, StackDontCare    bool // technique is "no obfuscation": the Demon never looks
	ProxyLoading, SysIndirect, Amsi  int32

	KillDate     int64
	WorkingHours uint32

	Method       string
	HostRotation int32
	Hosts        []WantHost
	Secure       int32
	UserAgent    string
	Headers      [][]string // acceptable header lists
	Uris         [][]string
	Proxy        bool
	ProxyUrl     string
	ProxyUser    string
	ProxyPass    string

	PipeName string
}

type WantHost struct {
	Host string
	Port int32
}

func atoi32(s string) (int32, bool) {
	// decimal integer the way a person reads it; must fit the 4 byte field
	v, err := strconv.ParseInt(s, 10, 64)
	if err != nil || v > 1<<31-1 || v < -(1<<31) {
		return 0, false
	}
	return int32(v), true
}

func b2i(b bool) int32 {
	if b {
		return 1
	}
	return 0
}

// Expect computes the Demon's expected configuration from the operator's choices.
func Expect(k Constants, o Options, l Listener) Want {
	var w Want
	fail := func(c string) { w.Verdict = MustFail; w.FailCauses = append(w.FailCauses, c) }
	may := func(c string) {
		if w.Verdict == MustSucceed {
			w.Verdict = MayFail
		}
		w.MayCauses = append(w.MayCauses, c)
	}

	if v, ok := atoi32(o.Sleep); ok {
		w.Sleeping = v
	} else {
		fail("sleep-not-a-number")
	}
	if v, ok := atoi32(o.Jitter); ok {
		w.Jitter = v
		if v < 0 || v > 100 {
			may("jitter-out-of-percent-range")
		}
	} else {
		fail("jitter-not-a-number")
	}
	w.Alloc = int32(k[specAlloc[o.Alloc]])
	w.Execute = int32(k[specExecute[o.Execute]])
	w.Spawn64, w.Spawn86 = o.Spawn64, o.Spawn32
	w.Technique = int32(k[specTechnique[o.Technique]])
	w.Gadget = int32(k[specGadget[o.Gadget]])
	w.StackSpoof = b2i(o.StackDup)
	if specTechnique[o.Technique] == "SLEEPOBF_NO_OBF" {
		// plain WaitForSingleObjectEx: gadget and stack duplication have no meaning;
		// the builder documents that it ignores them.  Either the chosen value or
		// "none" is accepted.
		w.GadgetDontCare, w.StackDontCare = true, true
	}
	w.ProxyLoading = int32(k[specProxyLoad[o.ProxyLoad]])
	w.SysIndirect = b2i(o.Syscall)
	w.Amsi = int32(k[specAmsi[o.AmsiEtw]])

	hours := func(s string) {
		cls, sh, sm, eh, em := ClassifyHours(s)
		switch cls {
		case HoursDisabled:
			w.WorkingHours = 0
		case HoursMalformed, HoursImpossible:
			fail("working-hours-" + cls.String())
		case HoursCanonical:
			w.WorkingHours = PackHours(sh, sm, eh, em)
		default:
			w.WorkingHours = PackHours(sh, sm, eh, em)
			may("working-hours-" + cls.String())
		}
	}

	switch {
	case l.HTTP != nil:
		h := l.HTTP
		w.KillDate = h.KillDate
		hours(h.WorkingHours)
		switch strings.ToLower(h.Methode) {
		case "post", "":
			w.Method = "POST"
		case "get":
			fail("method-get") // the Demon only implements POST (builder says so)
		default:
			w.Method = "POST"
			may("method-unknown")
		}
		switch h.HostRotation {
		case "round-robin":
			w.HostRotation = int32(k["TRANSPORT_HTTP_ROTATION_ROUND_ROBIN"])
		default: // "random" and the documented default
			w.HostRotation = int32(k["TRANSPORT_HTTP_ROTATION_RANDOM"])
		}

		// default port: PortConn, else PortBind
		defText := h.PortConn
		if defText == "" {
			defText = h.PortBind
		}
		defPort, defOK := atoi32(defText)
		needDef := false
		if len(h.Hosts) == 0 {
			fail("hosts-empty")
		}
		for _, hp := range h.Hosts {
			name, port := hp, ""
			hasPort := false
			if i := strings.Index(hp, ":"); i >= 0 {
				name, port, hasPort = hp[:i], hp[i+1:], true
			}
			if name == "" {
				fail("host-name-empty")
			}
			name = ifaceAddr(name)
			if hasPort {
				p, ok := atoi32(port)
				if !ok {
					fail("host-port-not-a-number")
				}
				w.Hosts = append(w.Hosts, WantHost{name, p})
			} else {
				needDef = true
				w.Hosts = append(w.Hosts, WantHost{name, defPort})
			}
		}
		if !defOK {
			if needDef {
				fail("default-port-not-a-number")
			} else {
				may("default-port-not-a-number-but-unused")
			}
		}

		w.Secure = b2i(h.Secure)
		w.UserAgent = h.UserAgent

		var hdr []string
		hdr = append(hdr, h.Headers...)
		hostHdr := []string{}
		if h.HostHeader != "" {
			hostHdr = []string{"Host: " + h.HostHeader}
		}
		if len(h.Headers) == 0 {
			// no headers configured: the builder's documented default content type
			// header is accepted as well as none
			w.Headers = [][]string{append([]string{"Content-type: */*"}, hostHdr...), append([]string{}, hostHdr...)}
		} else {
			w.Headers = [][]string{append(hdr, hostHdr...)}
		}
		if len(h.Uris) == 0 {
			// no URI configured: the Demon picks Uris[ rand % count ], it needs one; "/"
			w.Uris = [][]string{{"/"}}
		} else {
			w.Uris = [][]string{append([]string{}, h.Uris...)}
		}
		w.Proxy = h.Proxy.Enabled
		if h.Proxy.Enabled {
			w.ProxyUrl = h.Proxy.Type + "://" + h.Proxy.Host + ":" + h.Proxy.Port
			w.ProxyUser, w.ProxyPass = h.Proxy.Username, h.Proxy.Password
		}

	case l.SMB != nil:
		w.PipeName = `\\.\pipe\` + l.SMB.PipeName
		w.KillDate = l.SMB.KillDate
		hours(l.SMB.WorkingHours)
	}
	return w
}

// ---- comparison ----------------------------------------------------------------

// Diff is one field that does not match.
type Diff struct {
	Field string // signature component
	Want  string
	Got   string
	Sig   string // extra signature component (value class), may be empty
}

func u16(s string) []uint16 { return utf16.Encode([]rune(s)) }

func eqUnits(a, b []uint16) bool {
	if len(a) != len(b) {
		return false
	}
	for i := range a {
		if a[i] != b[i] {
			return false
		}
	}
	return true
}

func cmpStr(d *[]Diff, field string, got WStr, want string) {
	if !got.Terminated {
		*d = append(*d, Diff{Field: field, Want: strconv.Quote(want), Got: "unterminated " + strconv.Quote(got.String()), Sig: "unterminated"})
		return
	}
	if !eqUnits(got.Units, u16(want)) {
		*d = append(*d, Diff{Field: field, Want: strconv.Quote(want), Got: strconv.Quote(got.String())})
	}
}

func cmpInt(d *[]Diff, field string, got, want int64) {
	if got != want {
		*d = append(*d, Diff{Field: field, Want: fmt.Sprint(want), Got: fmt.Sprint(got), Sig: fmt.Sprintf("want=%d,got=%d", want, got)})
	}
}

func listStr(ws []WStr) []string {
	out := make([]string, len(ws))
	for i, w := range ws {
		out[i] = w.String()
		if !w.Terminated {
			out[i] += "<unterminated>"
		}
	}
	return out
}

func cmpList(d *[]Diff, field string, got []WStr, alts [][]string) {
	g := listStr(got)
	for _, a := range alts {
		if len(a) == len(g) {
			same := true
			for i := range a {
				if !got[i].Terminated || !eqUnits(got[i].Units, u16(a[i])) {
					same = false
				}
			}
			if same {
				return
			}
		}
	}
	sig := ""
	if len(alts) > 0 {
		switch {
		case len(g) > len(alts[0]):
			sig = "extra-entries"
		case len(g) < len(alts[0]):
			sig = "missing-entries"
		default:
			sig = "different-entries"
		}
	}
	*d = append(*d, Diff{Field: field, Want: fmt.Sprintf("%q", alts[0]), Got: fmt.Sprintf("%q", g), Sig: sig})
}

// Compare lists the fields of got that differ from want (success case).
func Compare(got *Config, w Want, transport int) []Diff {
	var d []Diff
	if got.Overrun {
		d = append(d, Diff{Field: "reader", Want: "all fields inside AgentConfig", Got: "the Demon's reader runs past the end of the configuration", Sig: "overrun"})
		return d
	}
	cmpInt(&d, "Sleeping", int64(got.Sleeping), int64(w.Sleeping))
	cmpInt(&d, "Jitter", int64(got.Jitter), int64(w.Jitter))
	cmpInt(&d, "Memory.Alloc", int64(got.Alloc), int64(w.Alloc))
	cmpInt(&d, "Memory.Execute", int64(got.Execute), int64(w.Execute))
	cmpStr(&d, "Process.Spawn64", got.Spawn64, w.Spawn64)
	cmpStr(&d, "Process.Spawn86", got.Spawn86, w.Spawn86)
	cmpInt(&d, "SleepMaskTechnique", int64(got.SleepMaskTechnique), int64(w.Technique))
	if !(w.GadgetDontCare && got.SleepJmpBypass == 0) {
		cmpInt(&d, "SleepJmpBypass", int64(got.SleepJmpBypass), int64(w.Gadget))
	}
	if !(w.StackDontCare && got.StackSpoof == 0) {
		cmpInt(&d, "StackSpoof", int64(got.StackSpoof), int64(w.StackSpoof))
	}
	cmpInt(&d, "ProxyLoading", int64(got.ProxyLoading), int64(w.ProxyLoading))
	cmpInt(&d, "SysIndirect", int64(got.SysIndirect), int64(w.SysIndirect))
	cmpInt(&d, "AmsiEtwPatch", int64(got.AmsiEtwPatch), int64(w.Amsi))

	if got.KillDate != w.KillDate {
		d = append(d, Diff{Field: "KillDate", Want: fmt.Sprint(w.KillDate), Got: fmt.Sprint(got.KillDate)})
	}
	if got.WorkingHours != w.WorkingHours {
		d = append(d, Diff{Field: "WorkingHours", Want: fmt.Sprintf("%#x", w.WorkingHours), Got: fmt.Sprintf("%#x", got.WorkingHours)})
	}

	switch transport {
	case TransportHTTP:
		cmpStr(&d, "Method", got.Method, w.Method)
		cmpInt(&d, "HostRotation", int64(got.HostRotation), int64(w.HostRotation))
		// hosts: every host with its port, in order (the Demon's list is the reverse
		// of the wire order for every configuration alike)
		same := len(got.Hosts) == len(w.Hosts) && got.HostsSkipped == 0
		if same {
			for i := range w.Hosts {
				if !got.Hosts[i].Host.Terminated || !eqUnits(got.Hosts[i].Host.Units, u16(w.Hosts[i].Host)) || got.Hosts[i].Port != w.Hosts[i].Port {
					same = false
				}
			}
		}
		if !same {
			var g, ws []string
			for _, h := range got.Hosts {
				g = append(g, fmt.Sprintf("%s:%d", h.Host.String(), h.Port))
			}
			for _, h := range w.Hosts {
				ws = append(ws, fmt.Sprintf("%s:%d", h.Host, h.Port))
			}
			sig := "different"
			if len(got.Hosts) == len(w.Hosts) && got.HostsSkipped == 0 {
				for i := range w.Hosts {
					if eqUnits(got.Hosts[i].Host.Units, u16(w.Hosts[i].Host)) && got.Hosts[i].Port != w.Hosts[i].Port {
						sig = "port"
					}
				}
			} else {
				sig = "count"
			}
			d = append(d, Diff{Field: "Hosts", Want: fmt.Sprintf("%q", ws), Got: fmt.Sprintf("%q", g), Sig: sig})
		}
		cmpInt(&d, "Secure", int64(got.Secure), int64(w.Secure))
		cmpStr(&d, "UserAgent", got.UserAgent, w.UserAgent)
		cmpList(&d, "Headers", got.Headers, w.Headers)
		cmpList(&d, "Uris", got.Uris, w.Uris)
		if got.ProxyEnabled != w.Proxy {
			d = append(d, Diff{Field: "Proxy.Enabled", Want: fmt.Sprint(w.Proxy), Got: fmt.Sprint(got.ProxyEnabled)})
		} else if w.Proxy {
			cmpStr(&d, "Proxy.Url", got.ProxyUrl, w.ProxyUrl)
			// Username/Password: NULL when the field is empty on the wire means
			// "no credentials", which equals an empty listener setting
			if got.ProxyUser == nil {
				if w.ProxyUser != "" {
					d = append(d, Diff{Field: "Proxy.Username", Want: strconv.Quote(w.ProxyUser), Got: "NULL"})
				}
			} else {
				cmpStr(&d, "Proxy.Username", *got.ProxyUser, w.ProxyUser)
			}
			if got.ProxyPass == nil {
				if w.ProxyPass != "" {
					d = append(d, Diff{Field: "Proxy.Password", Want: strconv.Quote(w.ProxyPass), Got: "NULL"})
				}
			} else {
				cmpStr(&d, "Proxy.Password", *got.ProxyPass, w.ProxyPass)
			}
		}
	case TransportSMB:
		cmpStr(&d, "Transport.Name", got.PipeName, w.PipeName)
	}
	return d
}

// ifaceAddr: a host entry that names a local network interface means that interface's first
// IPv4 address (operators write "eth0" for "whatever this box is called today"); any other
// name is taken as it stands.
func ifaceAddr(name string) string {
	ief, err := net.InterfaceByName(name)
	if err != nil {
		return name
	}
	addrs, err := ief.Addrs()
	if err != nil {
		return name
	}
	for _, a := range addrs {
		var ip net.IP
		switch v := a.(type) {
		case *net.IPNet:
			ip = v.IP
		case *net.IPAddr:
			ip = v.IP
		}
		if v4 := ip.To4(); v4 != nil {
			return v4.String()
		}
	}
	return name
}
