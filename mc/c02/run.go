// Package c02: "An operator's task reaches the agent exactly as issued".
//
// Every row of the command table (table.go) x every value of its parameter slots is
// sent as a real Session.Input package through Teamserver.DispatchEvent, fetched by a
// real COMMAND_GET_JOB check-in through the HTTP listener's engine, and the response
// body is read by a transcription of the Demon's dispatcher and handlers (demon.go).
package c02

import (
	"bytes"
	"encoding/base64"
	"encoding/json"
	"fmt"
	"os"
	"os/exec"
	"path/filepath"
	"runtime"
	"sort"
	"strconv"
	"strings"
	"time"

	"verifmc/demonwire"
	"verifmc/ev"
	"verifmc/seam"
)

// Case is one operator command: a table row with one value per slot and a task id.
type Case struct {
	V      *Variant
	Vals   []Val
	TaskID Val
}

// Experiment: cases queued one after the other for one agent, then one check-in.
type Experiment struct {
	Cases []Case
	Key   byte
}

var taskIDs = Slot{Name: "TaskID", Def: 0, Dom: []Val{
	{Label: "0000abcd", S: "0000abcd", U: 0xabcd}, {Label: "00000000", S: "00000000", U: 0}, {Label: "00000001", S: "00000001", U: 1},
	{Label: "7fffffff", S: "7fffffff", U: 0x7fffffff}, {Label: "80000000", S: "80000000", U: 0x80000000},
	{Label: "ffffffff", S: "ffffffff", U: 0xffffffff}, {Label: "upper-case", S: "DEADBEEF", U: 0xdeadbeef}}}

var keys = []byte{0, 1, 2}

// ivKeys: sessions whose IV sits at a carry boundary of the CTR block counter (seam.IV);
// every single-command case runs under each of them as well.
var ivKeys = []byte{0xf1, 0xf2, 0xf3, 0xf4, 0xf5}

const fullProductCap = 50000 // thorough: rows whose whole value product is at most this are enumerated completely

// slotsOf returns the row's slots plus the task id as last slot.
func slotsOf(v *Variant) []Slot { return append(append([]Slot{}, v.Slots...), taskIDs) }

func mkCase(v *Variant, slots []Slot, idx []int) Case {
	c := Case{V: v, Vals: make([]Val, len(v.Slots))}
	for i := range v.Slots {
		c.Vals[i] = slots[i].Dom[idx[i]]
	}
	c.TaskID = slots[len(slots)-1].Dom[idx[len(slots)-1]]
	return c
}

// singleCases enumerates the value assignments of one row: defaults, every slot alone
// over its domain (quick); every pair of slots over both domains, or the full product
// for small rows (thorough).  Deterministic order, no duplicates.
func singleCases(v *Variant, thorough bool) []Case {
	slots := slotsOf(v)
	def := make([]int, len(slots))
	product := 1
	for i, s := range slots {
		def[i] = s.Def
		if product <= fullProductCap {
			product *= len(s.Dom)
		}
	}
	seen := map[string]bool{}
	var out []Case
	emit := func(idx []int) {
		k := fmt.Sprint(idx)
		if seen[k] {
			return
		}
		seen[k] = true
		out = append(out, mkCase(v, slots, idx))
	}
	emit(def)
	for i, s := range slots {
		for a := range s.Dom {
			idx := append([]int{}, def...)
			idx[i] = a
			emit(idx)
		}
	}
	if !thorough {
		return out
	}
	if product <= fullProductCap {
		idx := make([]int, len(slots))
		for {
			emit(idx)
			i := len(idx) - 1
			for i >= 0 {
				idx[i]++
				if idx[i] < len(slots[i].Dom) {
					break
				}
				idx[i] = 0
				i--
			}
			if i < 0 {
				break
			}
		}
		return out
	}
	for i := range slots {
		for j := i + 1; j < len(slots); j++ {
			for a := range slots[i].Dom {
				for b := range slots[j].Dom {
					idx := append([]int{}, def...)
					idx[i], idx[j] = a, b
					emit(idx)
				}
			}
		}
	}
	for i := range slots {
		for j := i + 1; j < len(slots); j++ {
			for k := j + 1; k < len(slots); k++ {
				for a := range slots[i].Dom {
					for b := range slots[j].Dom {
						for c := range slots[k].Dom {
							idx := append([]int{}, def...)
							idx[i], idx[j], idx[k] = a, b, c
							emit(idx)
						}
					}
				}
			}
		}
	}
	return out
}

func defaultCase(v *Variant, tid int) Case {
	return Case{V: v, Vals: v.defaults(), TaskID: taskIDs.Dom[tid]}
}

// experiments builds the whole, ordered list for a tier.
func experiments(vs []*Variant, thorough bool) (list []Experiment, nSingles, nBatches int) {
	for _, v := range vs {
		for _, c := range singleCases(v, thorough) {
			for _, k := range append(append([]byte{}, keys...), ivKeys...) {
				list = append(list, Experiment{Cases: []Case{c}, Key: k})
				nSingles++
			}
		}
	}
	// batches: ordered pairs of rows whose argument kinds differ.  Quick: one
	// representative row per distinct kind tuple; thorough: all rows, plus ordered
	// triples of the representatives.
	var reps []*Variant
	have := map[string]bool{}
	for _, v := range vs {
		if s := v.kindSig(); !have[s] {
			have[s] = true
			reps = append(reps, v)
		}
	}
	pool := reps
	if thorough {
		pool = vs
	}
	for _, a := range pool {
		for _, b := range pool {
			if a.kindSig() == b.kindSig() {
				continue
			}
			for _, k := range keys {
				list = append(list, Experiment{Cases: []Case{defaultCase(a, 2), defaultCase(b, 3)}, Key: k})
				nBatches++
			}
		}
	}
	if thorough {
		for _, a := range reps {
			for _, b := range reps {
				for _, c := range reps {
					if a.kindSig() == b.kindSig() || b.kindSig() == c.kindSig() {
						continue
					}
					for _, k := range keys {
						list = append(list, Experiment{Cases: []Case{defaultCase(a, 2), defaultCase(b, 3), defaultCase(c, 5)}, Key: k})
						nBatches++
					}
				}
			}
		}
	}
	return list, nSingles, nBatches
}

// ---------------------------------------------------------------------------

func repoRoot() string {
	if r := os.Getenv("VERIF_REPO_ROOT"); r != "" {
		return r
	}
	if r := os.Getenv("VERIF_REPO"); r != "" {
		return r
	}
	return "/repo"
}

func harnessError(format string, a ...any) {
	fmt.Fprintf(os.Stderr, "HARNESS-ERROR C02: "+format+"\n", a...)
	os.Exit(2)
}

func Run(r *ev.Run) {
	src, err := loadDemonSource(repoRoot())
	if err != nil {
		harnessError("cannot read the Demon sources: %v", err)
	}
	vs := variants()
	if drift := src.check(vs, repoRoot()); len(drift) > 0 {
		for _, d := range drift {
			fmt.Fprintf(os.Stderr, "HARNESS-ERROR C02: drift between the command table and Command.c: %s\n", d)
		}
		os.Exit(2)
	}
	list, nSingles, nBatches := experiments(vs, r.Thorough())

	if w := os.Getenv("VERIF_WORKER"); w != "" {
		var i, n int
		if _, err := fmt.Sscanf(w, "%d/%d", &i, &n); err != nil || n <= 0 {
			harnessError("bad VERIF_WORKER %q", w)
		}
		runWorker(r, src, list, i, n, vs)
		if err := r.WritePartial(os.Getenv("VERIF_PARTIAL")); err != nil {
			harnessError("worker %d: %v", i, err)
		}
		os.Exit(0)
	}

	r.Rule = "every row of the operator-command table (every command/sub-command agent.TaskPrepare supports and the Demon has a handler for) x value assignments {all defaults; each parameter slot, and the task id, alone over its whole domain} (quick) or {the full product of all slot domains and the task ids for rows of <= 50000 combinations (every row but fs/dir); for fs/dir every pair and every triple of slots over their domains} (thorough) x 3 session keys (all-zero, two non-zero); plus batches: every ordered pair of rows with different argument-kind tuples (quick: one representative row per tuple; thorough: all rows, and ordered triples of the representatives) queued together and fetched by one check-in; part R: every row x every numeric slot spelt as no number - if the operator is told the task could not be created, nothing is queued and no request id becomes outstanding.  Each case is a real DispatchEvent(Session.Input) followed by a real COMMAND_GET_JOB request through the HTTP listener's engine; the response is read by a transcription of the Demon's dispatcher, parser and handlers and compared with the expectation written next to the row"
	r.Bounds["table_rows"] = len(vs)
	r.Bounds["single_command_cases"] = nSingles
	r.Bounds["batch_cases"] = nBatches
	r.Bounds["keys"] = "seam.Key(0) all-zero, seam.Key(1), seam.Key(2); single-command cases also under 5 sessions whose IV ends ff ff ff ff, ff ff ff f0, is all ff, has its low 8 bytes ff, or only its last byte ff (the CTR counter carries within the first blocks of a body)"
	r.Bounds["string_domain"] = `"", "a", "é", C:\x y (or a typical name), 300 x "A", "日本", "a"+U+1F600, U+1F600 U+1F601 U+1F602 ".txt"; dir paths also C:, C:\x y\, \\srv\share, \\srv\share\d, .`
	r.Bounds["integer_domain"] = "0, 1, 2^31-1, 2^31, 2^32-1 (decimal, or hexadecimal for ids/handles/LUIDs/offsets)"
	r.Bounds["blob_lengths"] = "0, 1, 17"
	r.Bounds["task_ids"] = len(taskIDs.Dom)
	r.Bounds["dispatcher_loop"] = "while ( Parser.Length " + src.LoopOp + " 12 )"
	r.Extra["not_in_table"] = skipped
	r.Assume("the operator's package has the format the shipped client emits (client/src/Havoc/Demon/CommandSend.cc, ConsoleInput.cc); values that the client cannot express (a ';' inside a ';'-joined argument list, malformed numbers) are outside the space",
		"the Demon is the pinned payloads/Demon: read order and kinds are re-extracted from Command.c on every run (drift guard) and the dispatcher's loop condition is taken from the source",
		"64-bit teamserver (strconv.Atoi accepts 2^31..2^32-1)")

	n := runtime.NumCPU()
	if n > 16 {
		n = 16
	}
	if n > len(list) {
		n = len(list)
	}
	tmp, err := os.MkdirTemp(seam.BaseTmp(), "verif-c02-")
	if err != nil {
		harnessError("%v", err)
	}
	defer os.RemoveAll(tmp)
	type res struct {
		err error
		out []byte
	}
	done := make([]chan res, n)
	for i := 0; i < n; i++ {
		done[i] = make(chan res, 1)
		go func(i int) {
			cmd := exec.Command(os.Args[0])
			cmd.Env = append(os.Environ(), fmt.Sprintf("VERIF_WORKER=%d/%d", i, n), "VERIF_PARTIAL="+filepath.Join(tmp, fmt.Sprintf("p%d.json", i)))
			out, err := cmd.CombinedOutput()
			done[i] <- res{err, out}
		}(i)
	}
	for i := 0; i < n; i++ {
		x := <-done[i]
		if x.err != nil {
			harnessError("worker %d failed: %v\n%s", i, x.err, x.out)
		}
		if err := r.MergePartialFile(filepath.Join(tmp, fmt.Sprintf("p%d.json", i))); err != nil {
			harnessError("worker %d: %v", i, err)
		}
	}
}

// ---------------------------------------------------------------------------

type worker struct {
	r     *ev.Run
	src   *demonSource
	ts    *seam.TS
	n     int // dispatches since the last GC
	start time.Time
}

func agentID(k byte) uint32 { return 0x0c020000 + uint32(k) }

func runWorker(r *ev.Run, src *demonSource, list []Experiment, i, n int, vs []*Variant) {
	ts := seam.New(seam.Options{})
	defer ts.Close()
	// TaskPrepare reads the reflective loader from <cwd>/payloads/DllLdr.x64.bin
	if err := os.MkdirAll(filepath.Join(ts.Root, "payloads"), 0o755); err != nil {
		harnessError("%v", err)
	}
	if err := os.WriteFile(filepath.Join(ts.Root, "payloads", "DllLdr.x64.bin"), ldrBytes, 0o644); err != nil {
		harnessError("%v", err)
	}
	if err := os.Chdir(ts.Root); err != nil {
		harnessError("%v", err)
	}
	for _, k := range keys {
		ts.MustRegister(agentID(k), k)
	}
	for _, k := range ivKeys {
		// what is judged here is the task stream, not how the registration was read: if
		// the teamserver cannot read a registration under this IV, the session is
		// registered under an ordinary one and given the IV afterwards
		if r := ts.Register(agentID(k), k); r.Panic != nil || r.Status != 200 || ts.Agent(agentID(k)) == nil {
			a := ts.T.AgentInstance(int(agentID(k)))
			if a == nil {
				ts.Post(demonwire.Register(agentID(k), seam.Key(k), seam.IV(1), demonwire.DefaultMeta(agentID(k))))
				a = ts.Agent(agentID(k))
			}
			if a == nil {
				harnessError("no session for key index %#x", k)
			}
			a.Encryption.AESIv = seam.IV(k)
		}
	}
	w := &worker{r: r, src: src, ts: ts, start: time.Now()}
	limit := 60 * time.Second
	if r.Thorough() {
		limit = 17 * time.Minute
	}
	if i == n-1 {
		w.refused(vs) // part R, in the last worker (the shortest block is usually there)
	}
	// contiguous blocks: merged in worker order, the first violation kept per signature is
	// the one with the lowest experiment index whatever the number of workers
	lo, hi := i*len(list)/n, (i+1)*len(list)/n
	for j := lo; j < hi; j++ {
		if time.Since(w.start) > limit {
			r.NotExhaustive(fmt.Sprintf("worker %d/%d stopped at its deadline at experiment %d of its block %d..%d", i, n, j, lo, hi))
			break
		}
		w.experiment(list[j], true)
	}
}

// outcome of one case of an experiment
type verdict struct {
	class string // delivered | rejected | panic | mismatch:<what> | clear:<what> | dropped | ...
	sig   string // violation signature ("" = none)
	what  string
}

func (c Case) variedSlots() []string {
	var out []string
	for i, s := range c.V.Slots {
		if c.Vals[i].Label != s.Dom[s.Def].Label {
			out = append(out, s.Name)
		}
	}
	if c.TaskID.Label != taskIDs.Dom[taskIDs.Def].Label {
		out = append(out, "TaskID")
	}
	return out
}

func (c Case) describe() map[string]any {
	vals := map[string]any{}
	for i, s := range c.V.Slots {
		vals[s.Name] = map[string]string{"class": c.Vals[i].Label, "typed": clip(c.Vals[i].S)}
	}
	info := c.info()
	for k, v := range info {
		if s, ok := v.(string); ok {
			info[k] = clipLong(s)
		}
	}
	return map[string]any{"command": c.V.Name, "command_id": c.V.Cmd, "task_id": c.TaskID.S, "parameters": vals, "session_input_info": info}
}

func clipLong(s string) string {
	if len(s) > 700 {
		return s[:700] + fmt.Sprintf("…(%d bytes)", len(s))
	}
	return s
}

func (c Case) info() map[string]any { return c.V.Info(c.Vals) }

// dispatch sends the case and reports how many jobs it added to the agent's queue.
func (w *worker) dispatch(c Case, id uint32) (added int, pan any, console string) {
	a := w.ts.Agent(id)
	before := len(a.JobQueue)
	evBefore := len(w.ts.T.EventsList)
	pan = w.ts.Task(id, c.TaskID.S, int(c.V.Cmd), c.info())
	added = len(a.JobQueue) - before
	for _, e := range w.ts.T.EventsList[evBefore:] {
		if out, ok := e.Body.Info["Output"].(string); ok {
			if b, err := base64.StdEncoding.DecodeString(out); err == nil && bytes.Contains(b, []byte("Error")) {
				var m map[string]string
				if json.Unmarshal(b, &m) == nil {
					console = m["Message"]
				}
			}
		}
	}
	w.ts.T.EventsList = w.ts.T.EventsList[:0]
	w.n++
	if w.n%256 == 0 {
		runtime.GC() // logr.AddAgentInput never closes its file; let the finalizers do it
	}
	return added, pan, console
}

// experiment runs e and records outcomes and violations.  With attribute=false it only
// returns the verdicts (used to find out which of two varied slots is to blame).
func (w *worker) experiment(e Experiment, record bool) []verdict {
	id := agentID(e.Key)
	key, iv := seam.Key(e.Key), seam.IV(e.Key)
	a := w.ts.Agent(id)
	if len(a.JobQueue) != 0 {
		harnessError("agent queue not empty before an experiment")
	}
	verdicts := make([]verdict, len(e.Cases))
	var expect []int // indices of cases that queued a task
	for i, c := range e.Cases {
		added, pan, console := w.dispatch(c, id)
		switch {
		case pan != nil:
			verdicts[i] = verdict{class: "panic", what: fmt.Sprintf("DispatchEvent panicked on a well-formed %s package: %s", c.V.Name, ev.Normalize(fmt.Sprint(pan)))}
		case added == 0:
			verdicts[i] = verdict{class: "rejected", what: fmt.Sprintf("valid parameter value rejected: %s queued no task (console: %q)", c.V.Name, console)}
		default:
			expect = append(expect, i)
		}
	}
	res := w.ts.Post(demonwire.CheckIn(id, key, iv))
	if res.Panic != nil || res.Status != 200 {
		harnessError("check-in failed: status=%d panic=%v", res.Status, res.Panic)
	}
	for len(a.JobQueue) != 0 { // never the case with these sizes; keep experiments independent
		w.ts.Post(demonwire.CheckIn(id, key, iv))
	}
	tasks, unread, malformed := readStream(res.Body, key, iv, w.src.LoopOp)
	d := newDemon()
	next := 0
	for _, t := range tasks {
		if t.Cmd == cmdNoJob {
			continue
		}
		if t.Cmd == cmdMemFile {
			if msg := d.memChunk(t.Body); msg != "" {
				// try the body as sent: was it left in clear?
				for _, i := range expect[next:] {
					if verdicts[i].class == "" {
						verdicts[i] = verdict{class: "mismatch:memfile", what: msg}
						break
					}
				}
			}
			continue
		}
		if next >= len(expect) {
			last := e.Cases[len(e.Cases)-1]
			if record {
				w.r.Violate("extra-task/"+last.V.Name, fmt.Sprintf("the check-in response holds a task (command %d, request %08x) the operator never issued", t.Cmd, t.ReqID), w.detail(e, nil))
			}
			continue
		}
		i := expect[next]
		next++
		verdicts[i] = w.judgeTask(e, e.Cases[i], t, d, res.Body)
	}
	for _, i := range expect[next:] {
		if verdicts[i].class != "" {
			continue
		}
		c := e.Cases[i]
		if malformed == "" && len(unread) == 12 && len(c.V.Want(c.Vals)) == 0 {
			verdicts[i] = verdict{class: "dropped", sig: "dropped/bodyless-task-last-in-batch",
				what: fmt.Sprintf("the task %s (no arguments, 12 bytes on the wire) queued after another task is in the response but the Demon's dispatcher loop `while ( Parser.Length %s 12 )` stops before it: the task is never executed and never answered", c.V.Name, w.src.LoopOp)}
		} else {
			verdicts[i] = verdict{class: "missing", sig: "missing/" + c.V.Name,
				what: fmt.Sprintf("the task %s was queued but the Demon does not find it in the check-in response (%d bytes unread; %s)", c.V.Name, len(unread), malformed)}
		}
	}
	if !record {
		return verdicts
	}
	for i, v := range verdicts {
		c := e.Cases[i]
		kc := "zero-key"
		if e.Key != 0 {
			kc = "keyed"
		}
		pos := ""
		if len(e.Cases) > 1 {
			pos = fmt.Sprintf("|batch%d.%d", len(e.Cases), i)
		}
		w.r.Outcome(c.V.kindSig() + "|" + kc + pos + "|" + strings.SplitN(v.class, ":", 2)[0])
		if v.class == "delivered" {
			continue
		}
		sig := v.sig
		if sig == "" {
			sig = strings.SplitN(v.class, ":", 2)[0] + "/" + c.V.Name + "/" + w.blame(e, i, v)
		}
		w.r.Violate(sig, v.what, w.detail(e, &i))
	}
	w.r.Eval(1)
	if w.r.WantSample() && len(e.Cases) == 1 && e.Key == 1 && len(e.Cases[0].variedSlots()) == 1 {
		w.r.Sample(map[string]any{"case": e.Cases[0].describe(), "key": e.Key, "response_bytes": len(res.Body), "verdict": verdicts[0].class})
	}
	return verdicts
}

func (w *worker) detail(e Experiment, failing *int) map[string]any {
	var cs []any
	for _, c := range e.Cases {
		cs = append(cs, c.describe())
	}
	m := map[string]any{"agent_key": fmt.Sprintf("seam.Key(%d)/seam.IV(%d)", e.Key, e.Key), "queued_in_order": cs,
		"replay": "register an agent with that key, DispatchEvent a Session.Input package with session_input_info (+DemonID, TaskID, CommandID, CommandLine) per entry, post one COMMAND_GET_JOB check-in, read the response as Command.c CommandDispatcher does"}
	if failing != nil {
		m["failing_entry"] = *failing
	}
	return m
}

// blame names the slot(s) a failure is attributed to: the argument that reads wrong
// (mismatches), or the varied slot — for two varied slots, the one that fails the same
// way on its own.
func (w *worker) blame(e Experiment, i int, v verdict) string {
	c := e.Cases[i]
	if k := strings.SplitN(v.class, ":", 2); len(k) == 2 {
		return k[1]
	}
	varied := c.variedSlots()
	if len(varied) <= 1 || len(e.Cases) > 1 {
		if len(varied) == 0 {
			return "defaults"
		}
		return strings.Join(varied, "+")
	}
	var alone []string
	for _, name := range varied {
		c2 := Case{V: c.V, Vals: c.V.defaults(), TaskID: taskIDs.Dom[taskIDs.Def]}
		if name == "TaskID" {
			c2.TaskID = c.TaskID
		}
		for j, s := range c.V.Slots {
			if s.Name == name {
				c2.Vals[j] = c.Vals[j]
			}
		}
		v2 := w.experiment(Experiment{Cases: []Case{c2}, Key: e.Key}, false)
		if strings.SplitN(v2[0].class, ":", 2)[0] == strings.SplitN(v.class, ":", 2)[0] {
			alone = append(alone, name)
		}
	}
	if len(alone) > 0 {
		sort.Strings(alone)
		return alone[0]
	}
	return strings.Join(varied, "+")
}

// judgeTask compares one decoded task with what the operator issued.
func (w *worker) judgeTask(e Experiment, c Case, t wireTask, d *demonModel, resp []byte) verdict {
	if t.Cmd != c.V.Cmd {
		return verdict{class: "mismatch:command", what: fmt.Sprintf("%s: the Demon reads command id %d, the operator issued %d", c.V.Name, t.Cmd, c.V.Cmd)}
	}
	if uint64(t.ReqID) != c.TaskID.U {
		return verdict{class: "mismatch:request-id", sig: "request-id/task-id=" + c.TaskID.Label,
			what: fmt.Sprintf("%s: the Demon reads request id %08x, the operator was told task id %s", c.V.Name, t.ReqID, c.TaskID.S)}
	}
	want := c.V.Want(c.Vals)
	argName := func(i int) string {
		if want[i].Slot != "" {
			return want[i].Slot
		}
		return "arg" + strconv.Itoa(i)
	}
	// mem-files are part of the Demon's state; compare on a copy so that the clear-text
	// probe below cannot disturb it
	if i, msg := d.readArgs(t.Body, want); msg != "" {
		if len(t.Raw) > 0 {
			if j, _ := d.readArgs(t.Raw, want); j < 0 {
				// the bytes as sent are the plaintext: the body was not encrypted at all
				if e.Key != 0 {
					return verdict{class: "clear:body", sig: fmt.Sprintf("clear/body-not-encrypted/keyed/len=%d", len(t.Raw)),
						what: fmt.Sprintf("%s: the %d-byte task body is on the wire in clear although the agent registered a non-zero key (decrypting it as the Demon does yields: %s)", c.V.Name, len(t.Raw), msg)}
				}
				return verdict{class: "mismatch:body-not-encrypted", sig: fmt.Sprintf("mismatch/body-not-encrypted/zero-key/len=%d", len(t.Raw)),
					what: fmt.Sprintf("%s: the %d-byte task body was sent without the AES-CTR pass the Demon always undoes (ParserDecrypt is unconditional, also for an all-zero key): %s", c.V.Name, len(t.Raw), msg)}
			}
		}
		return verdict{class: "mismatch:" + argName(i), what: c.V.Name + ": " + msg}
	}
	if e.Key != 0 {
		if len(t.Raw) > 0 && bytes.Equal(t.Raw, t.Body) {
			return verdict{class: "clear:body", what: c.V.Name + ": wire body equals its plaintext"}
		}
		for i, a := range want {
			for _, f := range a.clearForms() {
				if len(f) >= 8 && bytes.Contains(resp, f) {
					return verdict{class: "clear:" + argName(i), what: fmt.Sprintf("%s: the encoding of %s (%s) is visible in clear in the check-in response of an agent with a non-zero key", c.V.Name, argName(i), short(f))}
				}
			}
		}
	}
	return verdict{class: "delivered"}
}
