package c02

// Drift guard: the table in table.go claims, per command variant, which ParserGet*
// calls the Demon performs and in which order.  This file extracts the same facts
// from the C sources of the tree under test and compares; a difference is a harness
// error (the table has to be brought up to date), never a violation.

import (
	"fmt"
	"go/ast"
	"go/parser"
	"go/token"
	"os"
	"path/filepath"
	"regexp"
	"sort"
	"strconv"
	"strings"
)

type demonSource struct {
	LoopOp   string                           // operator of `while ( Parser.Length ? 12 )` in CommandDispatcher
	Dispatch map[uint32]string                // command id -> handler function
	Reads    map[string]map[string][]wireKind // handler -> section ("" = before the switch, else case label) -> reads in order
	Consts   map[string]uint32                // #define NAME number
}

// stripC blanks comments, string and character literals (newlines kept).
func stripC(src string) string {
	b := []byte(src)
	out := make([]byte, len(b))
	copy(out, b)
	blank := func(i, j int) {
		for k := i; k < j && k < len(out); k++ {
			if out[k] != '\n' {
				out[k] = ' '
			}
		}
	}
	for i := 0; i < len(b); {
		switch {
		case b[i] == '/' && i+1 < len(b) && b[i+1] == '/':
			j := i
			for j < len(b) && b[j] != '\n' {
				j++
			}
			blank(i, j)
			i = j
		case b[i] == '/' && i+1 < len(b) && b[i+1] == '*':
			j := i + 2
			for j+1 < len(b) && !(b[j] == '*' && b[j+1] == '/') {
				j++
			}
			j += 2
			blank(i, j)
			i = j
		case b[i] == '"' || b[i] == '\'':
			q := b[i]
			j := i + 1
			for j < len(b) && b[j] != q && b[j] != '\n' {
				if b[j] == '\\' {
					j++
				}
				j++
			}
			j++
			blank(i+1, j-1)
			i = j
		default:
			i++
		}
	}
	return string(out)
}

var (
	reDefine   = regexp.MustCompile(`(?m)^[ \t]*#[ \t]*define[ \t]+([A-Za-z_][A-Za-z0-9_]*)[ \t]+(0[xX][0-9a-fA-F]+|[0-9]+)[ \t]*(?:$|/)`)
	reDispatch = regexp.MustCompile(`\{\s*\.ID\s*=\s*(\w+)\s*,\s*\.Function\s*=\s*(\w+)\s*\}`)
	reFunc     = regexp.MustCompile(`(?m)^VOID[ \t]+(Command\w+)[ \t]*\(`)
	reLoop     = regexp.MustCompile(`while\s*\(\s*Parser\.Length\s*(>=|>)\s*12\s*\)`)
	reToken    = regexp.MustCompile(`[{}]|\bswitch\b|\bcase\s+(\w+)\s*:|\bdefault\s*:|\bParserGet(Int32|Int64|Int16|Byte|Bool|Bytes|String|WString)\s*\(`)
)

var readKind = map[string]wireKind{"Int32": kI32, "Int64": kI64, "Int16": kI16, "Byte": kU8, "Bool": kBool,
	"Bytes": kBytes, "String": kStr, "WString": kWStr}

func loadDemonSource(repoRoot string) (*demonSource, error) {
	demon := filepath.Join(repoRoot, "payloads", "Demon")
	s := &demonSource{Dispatch: map[uint32]string{}, Reads: map[string]map[string][]wireKind{}, Consts: map[string]uint32{}}
	err := filepath.Walk(filepath.Join(demon, "include"), func(p string, info os.FileInfo, err error) error {
		if err != nil || info.IsDir() || !strings.HasSuffix(p, ".h") {
			return nil
		}
		b, err := os.ReadFile(p)
		if err != nil {
			return err
		}
		for _, m := range reDefine.FindAllStringSubmatch(string(b), -1) {
			v, perr := strconv.ParseUint(m[2], 0, 32)
			if perr != nil {
				continue
			}
			if _, dup := s.Consts[m[1]]; !dup {
				s.Consts[m[1]] = uint32(v)
			}
		}
		return nil
	})
	if err != nil {
		return nil, err
	}
	raw, err := os.ReadFile(filepath.Join(demon, "src", "core", "Command.c"))
	if err != nil {
		return nil, err
	}
	src := stripC(string(raw))
	for _, m := range reDispatch.FindAllStringSubmatch(src, -1) {
		if m[2] == "NULL" {
			continue
		}
		id, ok := s.Consts[m[1]]
		if !ok {
			return nil, fmt.Errorf("dispatch table names %s, which no header defines", m[1])
		}
		s.Dispatch[id] = m[2]
	}
	if len(s.Dispatch) == 0 {
		return nil, fmt.Errorf("no DemonCommands table found in Command.c")
	}
	locs := reFunc.FindAllStringSubmatchIndex(src, -1)
	for _, l := range locs {
		name := src[l[2]:l[3]]
		open := strings.IndexByte(src[l[1]:], '{')
		if open < 0 {
			continue
		}
		semi := strings.IndexByte(src[l[1]:], ';')
		if semi >= 0 && semi < open {
			continue // prototype
		}
		start := l[1] + open
		depth, end := 0, -1
		for i := start; i < len(src); i++ {
			if src[i] == '{' {
				depth++
			} else if src[i] == '}' {
				depth--
				if depth == 0 {
					end = i + 1
					break
				}
			}
		}
		if end < 0 {
			return nil, fmt.Errorf("unbalanced braces in %s", name)
		}
		body := src[start:end]
		if name == "CommandDispatcher" {
			if m := reLoop.FindStringSubmatch(body); m != nil {
				s.LoopOp = m[1]
			}
			continue
		}
		s.Reads[name] = extractReads(body)
	}
	if s.LoopOp == "" {
		return nil, fmt.Errorf("CommandDispatcher: the `while ( Parser.Length > 12 )` loop was not found")
	}
	return s, nil
}

// extractReads lists the ParserGet* calls of a handler body: those before the first
// switch under "", those inside a case of the first switch under the case label
// (nested switches stay with the enclosing case), those after the switch under "".
func extractReads(body string) map[string][]wireKind {
	out := map[string][]wireKind{"": nil}
	depth := 0
	switchDepth := -1 // depth inside the first switch's block
	pendingSwitch := false
	done := false
	section := ""
	for _, m := range reToken.FindAllStringSubmatchIndex(body, -1) {
		tok := body[m[0]:m[1]]
		switch {
		case tok == "{":
			depth++
			if pendingSwitch {
				switchDepth = depth
				pendingSwitch = false
			}
		case tok == "}":
			if switchDepth >= 0 && !done && depth == switchDepth {
				done = true
				section = ""
			}
			depth--
		case tok == "switch":
			if switchDepth < 0 && !pendingSwitch {
				pendingSwitch = true
			}
		case strings.HasPrefix(tok, "case"):
			if switchDepth >= 0 && !done && depth == switchDepth {
				section = body[m[2]:m[3]]
				if _, ok := out[section]; !ok {
					out[section] = nil
				}
			}
		case strings.HasPrefix(tok, "default"):
			if switchDepth >= 0 && !done && depth == switchDepth {
				section = "default"
				if _, ok := out[section]; !ok {
					out[section] = nil
				}
			}
		default: // ParserGet*
			out[section] = append(out[section], readKind[body[m[4]:m[5]]])
		}
	}
	return out
}

func kindsString(k []wireKind) string {
	if len(k) == 0 {
		return "-"
	}
	p := make([]string, len(k))
	for i, x := range k {
		p[i] = string(x)
	}
	return strings.Join(p, " ")
}

// Sections of the Demon's handlers that no operator package reaches (and why), so that
// a section which is neither here nor in the table is reported as drift.
var notOperatorDriven = map[string]string{
	"CommandSocket/SOCKET_COMMAND_SOCKSPROXY_ADD": "socks5 servers live in the teamserver",
	"CommandSocket/SOCKET_COMMAND_WRITE":          "socks5 client traffic",
	"CommandSocket/SOCKET_COMMAND_CONNECT":        "socks5 client traffic",
	"CommandSocket/SOCKET_COMMAND_CLOSE":          "socks5 client traffic",
	"CommandPivot/DEMON_PIVOT_SMB_COMMAND":        "built by PivotAddJob for linked children",
	"CommandConfig/DEMON_CONFIG_SHOW_ALL":         "TaskPrepare has no config key for it",
	"CommandInjectShellcode/INJECT_WAY_SPAWN":     "inner switch on an argument, reads nothing",
	"CommandInjectShellcode/INJECT_WAY_INJECT":    "inner switch on an argument, reads nothing",
	"CommandInjectShellcode/INJECT_WAY_EXECUTE":   "inner switch on an argument, reads nothing",
	"CommandInlineExecute/0":                      "inner switch on an argument, reads nothing",
	"CommandInlineExecute/1":                      "inner switch on an argument, reads nothing",
}

// Cases of TaskPrepare's switch the table deliberately leaves out (see skipped).
var taskPrepareSkipped = map[string]bool{"COMMAND_PROC_PPIDSPOOF": true}

// Names TaskPrepare uses for the command ids of the table.
var taskPrepareNames = map[uint32]string{92: "COMMAND_EXIT", 100: "COMMAND_CHECKIN", 11: "COMMAND_SLEEP", 15: "COMMAND_FS",
	0x1010: "COMMAND_PROC", 12: "COMMAND_PROC_LIST", 20: "COMMAND_INLINEEXECUTE", 0x2001: "COMMAND_ASSEMBLY_INLINE_EXECUTE",
	0x2003: "COMMAND_ASSEMBLY_LIST_VERSIONS", 26: "COMMAND_SPAWNDLL", 21: "COMMAND_JOB", 22: "COMMAND_INJECT_DLL",
	24: "COMMAND_INJECT_SHELLCODE", 40: "COMMAND_TOKEN", 2500: "COMMAND_CONFIG", 2510: "COMMAND_SCREENSHOT", 2100: "COMMAND_NET",
	2520: "COMMAND_PIVOT", 2530: "COMMAND_TRANSFER", 2540: "COMMAND_SOCKET", 2550: "COMMAND_KERBEROS"}

// taskPrepareCases lists the case labels of `switch Command` in agent.TaskPrepare.
func taskPrepareCases(repoRoot string) ([]string, error) {
	fset := token.NewFileSet()
	f, err := parser.ParseFile(fset, filepath.Join(repoRoot, "teamserver", "pkg", "agent", "demons.go"), nil, 0)
	if err != nil {
		return nil, err
	}
	var out []string
	for _, d := range f.Decls {
		fn, ok := d.(*ast.FuncDecl)
		if !ok || fn.Name.Name != "TaskPrepare" || fn.Body == nil {
			continue
		}
		for _, st := range fn.Body.List {
			sw, ok := st.(*ast.SwitchStmt)
			if !ok {
				continue
			}
			if id, ok := sw.Tag.(*ast.Ident); !ok || id.Name != "Command" {
				continue
			}
			for _, c := range sw.Body.List {
				for _, e := range c.(*ast.CaseClause).List {
					if id, ok := e.(*ast.Ident); ok {
						out = append(out, id.Name)
					} else {
						out = append(out, fmt.Sprintf("<expr at %s>", fset.Position(e.Pos())))
					}
				}
			}
		}
	}
	if len(out) == 0 {
		return nil, fmt.Errorf("`switch Command` not found in agent.TaskPrepare")
	}
	return out, nil
}

// check compares the table with the sources and returns one message per drift.
func (s *demonSource) check(vs []*Variant, repoRoot string) []string {
	var msgs []string
	// the mem-file model of demon.go
	if h := s.Dispatch[cmdMemFile]; h != "CommandMemFile" || kindsString(s.Reads[h][""]) != "i32 i64 bytes" {
		msgs = append(msgs, fmt.Sprintf("mem-file: the harness models command %d as CommandMemFile reading [i32 i64 bytes], Command.c has %q reading [%s]", cmdMemFile, h, kindsString(s.Reads[h][""])))
	}
	// completeness, Demon side: every case of every dispatched handler is in the table or known not to be operator-driven
	inTable := map[string]bool{}
	handlers := map[string]bool{}
	cmds := map[uint32]bool{}
	for _, v := range vs {
		inTable[v.Handler+"/"+v.Case] = true
		handlers[v.Handler] = true
		cmds[v.Cmd] = true
	}
	for id, h := range s.Dispatch {
		if id == cmdMemFile {
			continue
		}
		if !handlers[h] {
			msgs = append(msgs, fmt.Sprintf("command %d (%s): dispatched by the Demon but absent from the table", id, h))
			continue
		}
		for sec := range s.Reads[h] {
			if sec == "" || sec == "default" || inTable[h+"/"+sec] {
				continue
			}
			if _, ok := notOperatorDriven[h+"/"+sec]; !ok {
				msgs = append(msgs, fmt.Sprintf("%s: `case %s` [%s] exists in Command.c but not in the table", h, sec, kindsString(s.Reads[h][sec])))
			}
		}
	}
	// completeness, teamserver side: every case of TaskPrepare's switch is in the table or deliberately skipped
	if tp, err := taskPrepareCases(repoRoot); err != nil {
		msgs = append(msgs, "TaskPrepare: "+err.Error())
	} else {
		have := map[string]bool{}
		for _, n := range tp {
			have[n] = true
		}
		known := map[string]bool{}
		for id := range cmds {
			n, ok := taskPrepareNames[id]
			if !ok {
				msgs = append(msgs, fmt.Sprintf("command %d: no TaskPrepare constant name recorded in the harness", id))
				continue
			}
			known[n] = true
			if !have[n] {
				msgs = append(msgs, fmt.Sprintf("%s: in the table but TaskPrepare has no case for it", n))
			}
		}
		for _, n := range tp {
			if !known[n] && !taskPrepareSkipped[n] {
				msgs = append(msgs, fmt.Sprintf("%s: TaskPrepare has a case for it but the table does not", n))
			}
		}
	}
	for _, v := range vs {
		h, ok := s.Dispatch[v.Cmd]
		if !ok || h != v.Handler {
			msgs = append(msgs, fmt.Sprintf("%s: the table says command %d is handled by %s, Command.c dispatches it to %q", v.Name, v.Cmd, v.Handler, h))
			continue
		}
		secs := s.Reads[h]
		if secs == nil {
			msgs = append(msgs, fmt.Sprintf("%s: handler %s not found in Command.c", v.Name, h))
			continue
		}
		src := append([]wireKind{}, secs[""]...)
		if v.Case != "" {
			c, ok := s.Consts[v.Case]
			if !ok {
				msgs = append(msgs, fmt.Sprintf("%s: case label %s is not defined by any Demon header", v.Name, v.Case))
				continue
			}
			if c != v.CaseVal {
				msgs = append(msgs, fmt.Sprintf("%s: the table says %s = %d, the headers say %d", v.Name, v.Case, v.CaseVal, c))
				continue
			}
			cs, ok := secs[v.Case]
			if !ok {
				msgs = append(msgs, fmt.Sprintf("%s: %s has no `case %s:`", v.Name, h, v.Case))
				continue
			}
			src = append(src, cs...)
		}
		var tab []wireKind
		for _, a := range v.Want(v.defaults()) {
			tab = append(tab, a.Kind)
		}
		okKinds := len(tab) == len(src)
		if v.Partial {
			okKinds = len(tab) <= len(src)
		}
		for i := 0; okKinds && i < len(tab); i++ {
			if tab[i] != src[i] {
				okKinds = false
			}
		}
		if !okKinds {
			rel := "reads"
			if v.Partial {
				rel = "starts with the reads"
			}
			msgs = append(msgs, fmt.Sprintf("%s: the table says %s %s [%s], Command.c has [%s]", v.Name, h, rel, kindsString(tab), kindsString(src)))
		}
	}
	sort.Strings(msgs)
	return msgs
}
