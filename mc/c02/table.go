package c02

// The table of operator commands: one row per command / sub-command that
// agent.TaskPrepare supports and the Demon has a handler for.  Each row names its
// parameter slots, how the operator's package (Session.Input Info map) is built from
// slot values — the formats are those of the shipped client (client/src/Havoc/Demon/
// CommandSend.cc, ConsoleInput.cc) — and, next to it, what the Demon's handler must
// read (Want): order and kinds from Command.c, values from the operator's parameters
// as the handler uses them.  Want never looks at what TaskPrepare does.

import (
	"encoding/base64"
	"encoding/binary"
	"fmt"
	"strconv"
	"strings"
)

// Val is one value of a slot's domain.
type Val struct {
	Label string // value class, used in signatures and evidence
	S     string // what the operator types / the client puts in the package
	U     uint64 // numeric value (integers, ids)
	B     bool
	Raw   []byte // blobs: the bytes (S is their base64)
}

type Slot struct {
	Name string
	Dom  []Val
	Def  int
}

type Variant struct {
	Name    string
	Cmd     uint32 // command id the Demon dispatches on
	Handler string // Demon handler (drift guard)
	Case    string // case label of the handler's switch ("" = none)
	CaseVal uint32 // its value in the Demon's headers
	Partial bool   // the handler has further, conditional reads not taken on this path
	Slots   []Slot
	Info    func(v []Val) map[string]any
	Want    func(v []Val) []Arg
	NeedLdr bool // TaskPrepare reads <cwd>/payloads/DllLdr.x64.bin
}

func (v *Variant) defaults() []Val {
	out := make([]Val, len(v.Slots))
	for i, s := range v.Slots {
		out[i] = s.Dom[s.Def]
	}
	return out
}

// kindSig is the tuple of wire kinds (batches pair variants whose tuples differ).
func (v *Variant) kindSig() string {
	var k []wireKind
	for _, a := range v.Want(v.defaults()) {
		k = append(k, a.Kind)
	}
	return kindsString(k)
}

// ---------------------------------------------------------------------------
// domains

var long300 = strings.Repeat("A", 300)

func sStr(name string) Slot {
	return Slot{Name: name, Def: 3, Dom: []Val{
		{Label: "empty", S: ""}, {Label: "a", S: "a"}, {Label: "nonascii", S: "é"},
		{Label: "path", S: `C:\x y`}, {Label: "long300", S: long300},
		// beyond the basic plane: one UTF-16 code unit is no longer one character
		{Label: "bmp-cjk", S: "日本"}, {Label: "astral-1", S: "a\U0001F600"}, {Label: "astral-3", S: "\U0001F600\U0001F601\U0001F602.txt"}}}
}

// sName is a string slot that is not a path (library, function, privilege names).
func sName(name, def string) Slot {
	s := sStr(name)
	s.Dom[3] = Val{Label: "typical", S: def}
	return s
}

func sDirPath(name string) Slot {
	s := sStr(name)
	s.Dom = append(s.Dom, Val{Label: "drive", S: `C:`}, Val{Label: "trailing-backslash", S: `C:\x y\`},
		Val{Label: "unc-share", S: `\\srv\share`}, Val{Label: "unc-deep", S: `\\srv\share\d`}, Val{Label: "dot", S: `.`})
	return s
}

var intVals = []uint64{0, 1, 1<<31 - 1, 1 << 31, 1<<32 - 1}
var intLabels = []string{"0", "1", "2^31-1", "2^31", "2^32-1"}

// sInt: a number the operator types in decimal.
func sInt(name string) Slot {
	s := Slot{Name: name, Def: 1}
	for i, u := range intVals {
		s.Dom = append(s.Dom, Val{Label: intLabels[i], S: strconv.FormatUint(u, 10), U: u})
	}
	return s
}

// sHex: a 32-bit id the operator types in hexadecimal, as the console printed it.
func sHex(name, prefix string) Slot {
	s := Slot{Name: name, Def: 1}
	for i, u := range intVals {
		s.Dom = append(s.Dom, Val{Label: intLabels[i], S: prefix + strconv.FormatUint(u, 16), U: u})
	}
	return s
}

func sBool(name string) Slot {
	return Slot{Name: name, Dom: []Val{{Label: "false", S: "false"}, {Label: "true", S: "true", B: true, U: 1}}}
}

// sBoolCI: the console's shell/proc commands send FALSE/TRUE in upper case.
func sBoolCI(name string) Slot {
	s := sBool(name)
	s.Dom = append(s.Dom, Val{Label: "TRUE-upper-case", S: "TRUE", B: true, U: 1}, Val{Label: "FALSE-upper-case", S: "FALSE"})
	return s
}

func blob(n int, seed byte) []byte {
	b := make([]byte, n)
	for i := range b {
		b[i] = seed + byte(i)*37 + byte(i*i)
	}
	return b
}

func sBlob(name string, seed byte) Slot {
	s := Slot{Name: name, Def: 2}
	for _, n := range []int{0, 1, 17} {
		r := blob(n, seed)
		s.Dom = append(s.Dom, Val{Label: fmt.Sprintf("blob%d", n), S: base64.StdEncoding.EncodeToString(r), Raw: r})
	}
	return s
}

func sEnum(name string, def int, vals ...Val) Slot { return Slot{Name: name, Dom: vals, Def: def} }

func en(s string, u uint64) Val { return Val{Label: s, S: s, U: u} }

func b64(s string) string { return base64.StdEncoding.EncodeToString([]byte(s)) }

// ---------------------------------------------------------------------------
// what the Demon needs, where it is not simply the operator's text

// dirPattern: FS::Dir hands the path to FindFirstFileW and only adds "\*" itself
// when the path names an existing directory.  A drive ("C:"), a share root
// ("\\srv\share") and a path ending in a backslash are not findable as such, so the
// handler needs the wildcard form for them; any other path it needs unchanged.
func dirPattern(p string) string {
	switch {
	case strings.HasSuffix(p, `\`):
		return p + `*`
	case strings.HasSuffix(p, `:`):
		return p + `\*`
	case strings.HasPrefix(p, `\\`):
		rest := strings.Split(p[2:], `\`)
		if len(rest) == 2 && rest[0] != "" && rest[1] != "" {
			return p + `\*`
		}
	}
	return p
}

// ipWord: the handler stores the word in sin_addr.s_addr, i.e. the four octets in
// memory order; read little-endian that is octet0 | octet1<<8 | ...
func ipWord(ip string) uint32 {
	var o [4]byte
	for i, p := range strings.Split(ip, ".") {
		n, _ := strconv.Atoi(p)
		o[i] = byte(n)
	}
	return binary.LittleEndian.Uint32(o[:])
}

// fileTime: KillDate is compared with GetSystemFileTime(): 100 ns ticks since 1601.
func fileTime(unix int64) uint64 { return uint64(unix+11644473600) * 10000000 }

// workingHours: InWorkingHours() unpacks bit 22 = enabled, start hour 17..21, start
// minute 11..16, end hour 6..10, end minute 0..5.
func workingHours(sh, sm, eh, em uint32) uint32 { return 1<<22 | sh<<17 | sm<<11 | eh<<6 | em }

var ldrBytes = []byte("\x4d\x5aVERIF-REFLECTIVE-LOADER-STUB\x00\x01\x02\x03")

// ---------------------------------------------------------------------------

func variants() []*Variant {
	var vs []*Variant
	add := func(v *Variant) { vs = append(vs, v) }
	none := func(v []Val) map[string]any { return map[string]any{} }

	// ---- exit / checkin / sleep ------------------------------------------------
	add(&Variant{Name: "exit", Cmd: 92, Handler: "CommandExit",
		Slots: []Slot{sEnum("ExitMethod", 0, en("thread", 1), en("process", 2))},
		Info:  func(v []Val) map[string]any { return map[string]any{"ExitMethod": v[0].S} },
		Want:  func(v []Val) []Arg { return []Arg{aI32("ExitMethod", uint32(v[0].U))} }})
	add(&Variant{Name: "checkin", Cmd: 100, Handler: "CommandCheckin", Info: none,
		Want: func(v []Val) []Arg { return nil }})
	add(&Variant{Name: "sleep", Cmd: 11, Handler: "CommandSleep",
		Slots: []Slot{sInt("Delay"), sInt("Jitter")},
		Info:  func(v []Val) map[string]any { return map[string]any{"Arguments": v[0].S + ";" + v[1].S} },
		Want: func(v []Val) []Arg {
			return []Arg{aI32("Delay", uint32(v[0].U)), aI32("Jitter", uint32(v[1].U))}
		}})

	// ---- job -------------------------------------------------------------------
	add(&Variant{Name: "job/list", Cmd: 21, Handler: "CommandJob", Case: "DEMON_COMMAND_JOB_LIST", CaseVal: 1,
		Info: func(v []Val) map[string]any { return map[string]any{"Command": "list", "Param": "0"} },
		Want: func(v []Val) []Arg { return []Arg{aI32("", 1)} }})
	for _, j := range []struct {
		n, c string
		id   uint32
	}{{"suspend", "DEMON_COMMAND_JOB_SUSPEND", 2}, {"resume", "DEMON_COMMAND_JOB_RESUME", 3}, {"kill", "DEMON_COMMAND_JOB_KILL_REMOVE", 4}} {
		j := j
		add(&Variant{Name: "job/" + j.n, Cmd: 21, Handler: "CommandJob", Case: j.c, CaseVal: j.id,
			Slots: []Slot{sInt("JobID")},
			Info:  func(v []Val) map[string]any { return map[string]any{"Command": j.n, "Param": v[0].S} },
			Want:  func(v []Val) []Arg { return []Arg{aI32("", j.id), aI32("JobID", uint32(v[0].U))} }})
	}

	// ---- proc ------------------------------------------------------------------
	proc := func(name, label string, id uint32, slots []Slot, args func(v []Val) string, want func(v []Val) []Arg) {
		add(&Variant{Name: "proc/" + name, Cmd: 0x1010, Handler: "CommandProc", Case: label, CaseVal: id, Slots: slots,
			Info: func(v []Val) map[string]any {
				return map[string]any{"ProcCommand": strconv.Itoa(int(id)), "Args": args(v)}
			},
			Want: func(v []Val) []Arg { return append([]Arg{aI32("", id)}, want(v)...) }})
	}
	proc("modules", "DEMON_COMMAND_PROC_MODULES", 2, []Slot{sInt("PID")},
		func(v []Val) string { return v[0].S },
		func(v []Val) []Arg { return []Arg{aI32("PID", uint32(v[0].U))} })
	proc("grep", "DEMON_COMMAND_PROC_GREP", 3, []Slot{sStr("Name")},
		func(v []Val) string { return v[0].S },
		func(v []Val) []Arg { return []Arg{aWStr("Name", v[0].S)} })
	proc("create", "DEMON_COMMAND_PROC_CREATE", 4,
		[]Slot{sInt("State"), sBoolCI("Verbose"), sBoolCI("Piped"), sStr("Process"), sStr("ProcessArgs")},
		func(v []Val) string { // State;Verbose;Piped;Process;base64(Args)
			return strings.Join([]string{v[0].S, v[1].S, v[2].S, v[3].S, b64(v[4].S)}, ";")
		},
		func(v []Val) []Arg {
			return []Arg{aI32("State", uint32(v[0].U)), aWStr("Process", v[3].S), aWStr("ProcessArgs", v[4].S),
				aFlag("Piped", v[2].B), aFlag("Verbose", v[1].B)}
		})
	protections := []Val{en("PAGE_NOACCESS", 0x01), en("PAGE_READONLY", 0x02), en("PAGE_READWRITE", 0x04), en("PAGE_WRITECOPY", 0x08),
		en("PAGE_EXECUTE", 0x10), en("PAGE_EXECUTE_READ", 0x20), en("PAGE_EXECUTE_READWRITE", 0x40), en("PAGE_EXECUTE_WRITECOPY", 0x80),
		en("PAGE_GUARD", 0x100)}
	proc("memory", "DEMON_COMMAND_PROC_MEMORY", 6, []Slot{sInt("PID"), sEnum("Protection", 2, protections...)},
		func(v []Val) string { return v[0].S + " " + v[1].S },
		func(v []Val) []Arg { return []Arg{aI32("PID", uint32(v[0].U)), aI32("Protection", uint32(v[1].U))} })
	proc("kill", "DEMON_COMMAND_PROC_KILL", 7, []Slot{sInt("PID")},
		func(v []Val) string { return v[0].S },
		func(v []Val) []Arg { return []Arg{aI32("PID", uint32(v[0].U))} })

	add(&Variant{Name: "proclist", Cmd: 12, Handler: "CommandProcList", Slots: []Slot{sBool("FromProcessManager")},
		Info: func(v []Val) map[string]any { return map[string]any{"FromProcessManager": v[0].S} },
		Want: func(v []Val) []Arg { return []Arg{aI32("FromProcessManager", uint32(v[0].U))} }})

	// ---- fs --------------------------------------------------------------------
	fs := func(name, sub, label string, id uint32, slots []Slot, args func(v []Val) string, want func(v []Val) []Arg) {
		add(&Variant{Name: "fs/" + name, Cmd: 15, Handler: "CommandFS", Case: label, CaseVal: id, Slots: slots,
			Info: func(v []Val) map[string]any { return map[string]any{"SubCommand": sub, "Arguments": args(v)} },
			Want: func(v []Val) []Arg { return append([]Arg{aI32("", id)}, want(v)...) }})
	}
	fs("dir", "dir", "DEMON_COMMAND_FS_DIR", 1,
		[]Slot{sDirPath("Path"), sBool("SubDirs"), sBool("FilesOnly"), sBool("DirsOnly"), sBool("ListOnly"), sName("Starts", "rep"), sName("Contains", "or"), sName("Ends", ".docx")},
		func(v []Val) string {
			return strings.Join([]string{v[0].S, v[1].S, v[2].S, v[3].S, v[4].S, v[5].S, v[6].S, v[7].S}, ";")
		},
		func(v []Val) []Arg {
			return []Arg{aBool("", false), aWStr("Path", dirPattern(v[0].S)), aBool("SubDirs", v[1].B), aBool("FilesOnly", v[2].B),
				aBool("DirsOnly", v[3].B), aBool("ListOnly", v[4].B), aWStr("Starts", v[5].S), aWStr("Contains", v[6].S), aWStr("Ends", v[7].S)}
		})
	fs("dir-ui", "dir;ui", "DEMON_COMMAND_FS_DIR", 1, []Slot{sDirPath("Path")},
		func(v []Val) string { return v[0].S },
		func(v []Val) []Arg {
			return []Arg{aBool("", true), aWStr("Path", dirPattern(v[0].S)), aBool("", false), aBool("", false), aBool("", false), aBool("", false),
				aWStr("", ""), aWStr("", ""), aWStr("", "")}
		})
	fs("download", "download", "DEMON_COMMAND_FS_DOWNLOAD", 2, []Slot{sStr("File")},
		func(v []Val) string { return b64(v[0].S) },
		func(v []Val) []Arg { return []Arg{aWStr("File", v[0].S).as(kBytes).mode(cmpWCStrZ)} })
	fs("upload", "upload", "DEMON_COMMAND_FS_UPLOAD", 3, []Slot{sStr("RemotePath"), sBlob("Content", 0x11)},
		func(v []Val) string { return b64(v[0].S) + ";" + v[1].S },
		func(v []Val) []Arg { return []Arg{aWStr("RemotePath", v[0].S), aMem("Content", v[1].Raw)} })
	for _, p := range []struct {
		n, l string
		id   uint32
	}{{"cd", "DEMON_COMMAND_FS_CD", 4}, {"remove", "DEMON_COMMAND_FS_REMOVE", 5}, {"mkdir", "DEMON_COMMAND_FS_MKDIR", 6}} {
		fs(p.n, p.n, p.l, p.id, []Slot{sStr("Path")},
			func(v []Val) string { return v[0].S },
			func(v []Val) []Arg { return []Arg{aWStr("Path", v[0].S)} })
	}
	for _, p := range []struct {
		n, l string
		id   uint32
	}{{"cp", "DEMON_COMMAND_FS_COPY", 7}, {"mv", "DEMON_COMMAND_FS_MOVE", 8}} {
		fs(p.n, p.n, p.l, p.id, []Slot{sStr("From"), sStr("To")},
			func(v []Val) string { return b64(v[0].S) + ";" + b64(v[1].S) },
			func(v []Val) []Arg { return []Arg{aWStr("From", v[0].S), aWStr("To", v[1].S)} })
	}
	fs("pwd", "pwd", "DEMON_COMMAND_FS_GET_PWD", 9, nil, func(v []Val) string { return "" }, func(v []Val) []Arg { return nil })
	fs("cat", "cat", "DEMON_COMMAND_FS_CAT", 10, []Slot{sStr("File")},
		func(v []Val) string { return b64(v[0].S) },
		func(v []Val) []Arg { return []Arg{aWStr("File", v[0].S)} })

	// ---- object files, assemblies, injection -------------------------------------
	flags := []Val{en("non-threaded", 0), en("threaded", 1), en("default", 2)}
	add(&Variant{Name: "inline-execute", Cmd: 20, Handler: "CommandInlineExecute",
		Slots: []Slot{sName("FunctionName", "go"), sBlob("Binary", 0x21), sBlob("Arguments", 0x31), sEnum("Flags", 2, flags...)},
		Info: func(v []Val) map[string]any {
			return map[string]any{"HasCallback": "false", "FunctionName": v[0].S, "Binary": v[1].S, "Arguments": v[2].S, "Flags": v[3].S}
		},
		Want: func(v []Val) []Arg {
			return []Arg{aStr("FunctionName", v[0].S), aMem("Binary", v[1].Raw), aMem("Arguments", v[2].Raw), aI32("Flags", uint32(v[3].U))}
		}})
	add(&Variant{Name: "dotnet/inline-execute", Cmd: 0x2001, Handler: "CommandAssemblyInlineExecute",
		Slots: []Slot{sBlob("Binary", 0x41), sStr("Arguments")},
		Info:  func(v []Val) map[string]any { return map[string]any{"Binary": v[0].S, "Arguments": v[1].S} },
		Want: func(v []Val) []Arg {
			return []Arg{{Kind: kWStr, Mode: cmpPipe}, aWStr("", "DefaultDomain"), aWStr("", "v4.0.30319"), aMem("Binary", v[0].Raw), aWStr("Arguments", v[1].S)}
		}})
	add(&Variant{Name: "dotnet/list-versions", Cmd: 0x2003, Handler: "CommandAssemblyListVersion", Info: none,
		Want: func(v []Val) []Arg { return nil }})
	add(&Variant{Name: "dll/inject", Cmd: 22, Handler: "CommandInjectDLL", NeedLdr: true,
		Slots: []Slot{sInt("PID"), sBlob("Binary", 0x51), sStr("Arguments")},
		Info: func(v []Val) map[string]any {
			return map[string]any{"PID": v[0].S, "Binary": v[1].S, "Arguments": v[2].S}
		},
		Want: func(v []Val) []Arg {
			return []Arg{aI32("", 0), aI32("PID", uint32(v[0].U)), aBytes("", ldrBytes), aBytes("Binary", v[1].Raw),
				aBytes("Arguments", []byte(v[2].S)).mode(cmpBytesCStr)}
		}})
	add(&Variant{Name: "dll/spawn", Cmd: 26, Handler: "CommandSpawnDLL", NeedLdr: true,
		Slots: []Slot{sBlob("Binary", 0x61), sBlob("Arguments", 0x71)},
		Info:  func(v []Val) map[string]any { return map[string]any{"Binary": v[0].S, "Arguments": v[1].S} },
		Want: func(v []Val) []Arg {
			return []Arg{aBytes("", ldrBytes).as(kStr), aBytes("Binary", v[0].Raw).as(kStr), aBytes("Arguments", v[1].Raw).as(kStr)}
		}})
	techniques := []Val{en("default", 0), en("createremotethread", 1), en("ntcreatethreadex", 2), en("ntqueueapcthread", 3), {Label: "Default-mixed-case", S: "Default", U: 0}}
	arch := []Val{en("x64", 1), en("x86", 0)}
	for _, w := range []struct {
		n, way, argKey string
		id             uint32
	}{{"inject", "Inject", "Argument", 1}, {"spawn", "Spawn", "Argument", 0}, {"execute", "Execute", "Argument", 2},
		// the shipped client (CommandSend.cc ShellcodeInject/Spawn/Execute) names the key "Arguments"
		{"inject-clientkey", "Inject", "Arguments", 1}, {"spawn-clientkey", "Spawn", "Arguments", 0}, {"execute-clientkey", "Execute", "Arguments", 2}} {
		w := w
		add(&Variant{Name: "shellcode/" + w.n, Cmd: 24, Handler: "CommandInjectShellcode",
			Slots: []Slot{sEnum("Technique", 0, techniques...), sEnum("Arch", 0, arch...), sBlob("Binary", 0x81), sBlob("Argument", 0x91), sInt("PID")},
			Info: func(v []Val) map[string]any {
				m := map[string]any{"Way": w.way, "Technique": v[0].S, "Arch": v[1].S, "Binary": v[2].S, w.argKey: v[3].S}
				if w.id == 1 {
					m["PID"] = v[4].S
				}
				return m
			},
			Want: func(v []Val) []Arg {
				pid := aI32("PID", uint32(v[4].U))
				if w.id != 1 {
					pid = pid.mode(cmpIgnored)
				}
				return []Arg{aI32("", w.id), aI32("Technique", uint32(v[0].U)), aFlag("Arch", v[1].U == 1), aBytes("Binary", v[2].Raw), aBytes("Argument", v[3].Raw), pid}
			}})
	}

	// ---- token -----------------------------------------------------------------
	token := func(name, label string, id uint32, partial bool, slots []Slot, args func(v []Val) string, want func(v []Val) []Arg) {
		add(&Variant{Name: "token/" + name, Cmd: 40, Handler: "CommandToken", Case: label, CaseVal: id, Partial: partial, Slots: slots,
			Info: func(v []Val) map[string]any { return map[string]any{"SubCommand": name, "Arguments": args(v)} },
			Want: func(v []Val) []Arg { return append([]Arg{aI32("", id)}, want(v)...) }})
	}
	noArg := func(v []Val) string { return "" }
	noWant := func(v []Val) []Arg { return nil }
	token("impersonate", "DEMON_COMMAND_TOKEN_IMPERSONATE", 1, false, []Slot{sInt("TokenID")},
		func(v []Val) string { return v[0].S }, func(v []Val) []Arg { return []Arg{aI32("TokenID", uint32(v[0].U))} })
	token("steal", "DEMON_COMMAND_TOKEN_STEAL", 2, false, []Slot{sInt("PID"), sHex("Handle", "")},
		func(v []Val) string { return v[0].S + ";" + v[1].S },
		func(v []Val) []Arg { return []Arg{aI32("PID", uint32(v[0].U)), aI32("Handle", uint32(v[1].U))} })
	token("list", "DEMON_COMMAND_TOKEN_LIST", 3, false, nil, noArg, noWant)
	token("privs-list", "DEMON_COMMAND_TOKEN_PRIVSGET_OR_LIST", 4, true, nil, noArg,
		func(v []Val) []Arg { return []Arg{aFlag("", true)} })
	token("privs-get", "DEMON_COMMAND_TOKEN_PRIVSGET_OR_LIST", 4, false, []Slot{sName("Privilege", "SeDebugPrivilege")},
		func(v []Val) string { return v[0].S },
		func(v []Val) []Arg { return []Arg{aFlag("", false), aStr("Privilege", v[0].S)} })
	token("make", "DEMON_COMMAND_TOKEN_MAKE", 5, false, []Slot{sName("Domain", "CORP"), sName("User", "alice"), sName("Password", "P@ss w0rd"), sInt("LogonType")},
		func(v []Val) string {
			return strings.Join([]string{b64(v[0].S), b64(v[1].S), b64(v[2].S), v[3].S}, ";")
		},
		func(v []Val) []Arg {
			return []Arg{aWStr("Domain", v[0].S), aWStr("User", v[1].S), aWStr("Password", v[2].S), aI32("LogonType", uint32(v[3].U))}
		})
	token("getuid", "DEMON_COMMAND_TOKEN_GET_UID", 6, false, nil, noArg, noWant)
	token("revert", "DEMON_COMMAND_TOKEN_REVERT", 7, false, nil, noArg, noWant)
	token("remove", "DEMON_COMMAND_TOKEN_REMOVE", 8, false, []Slot{sInt("TokenID")},
		func(v []Val) string { return v[0].S }, func(v []Val) []Arg { return []Arg{aI32("TokenID", uint32(v[0].U))} })
	token("clear", "DEMON_COMMAND_TOKEN_CLEAR", 9, false, nil, noArg, noWant)
	token("find", "DEMON_COMMAND_TOKEN_FIND_TOKENS", 10, false, nil, noArg, noWant)

	// ---- config ----------------------------------------------------------------
	config := func(key, label string, id uint32, slots []Slot, val func(v []Val) string, want func(v []Val) []Arg) {
		add(&Variant{Name: "config/" + key, Cmd: 2500, Handler: "CommandConfig", Case: label, CaseVal: id, Slots: slots,
			Info: func(v []Val) map[string]any { return map[string]any{"ConfigKey": key, "ConfigVal": val(v)} },
			Want: func(v []Val) []Arg { return append([]Arg{aI32("", id)}, want(v)...) }})
	}
	first := func(v []Val) string { return v[0].S }
	for _, c := range []struct {
		key, label string
		id         uint32
	}{{"implant.verbose", "DEMON_CONFIG_IMPLANT_VERBOSE", 4}, {"implant.coffee.veh", "DEMON_CONFIG_IMPLANT_COFFEE_VEH", 7},
		{"implant.coffee.threaded", "DEMON_CONFIG_IMPLANT_COFFEE_THREADED", 6}} {
		config(c.key, c.label, c.id, []Slot{sBool("Value")}, first, func(v []Val) []Arg { return []Arg{aFlag("Value", v[0].B)} })
	}
	for _, c := range []struct {
		key, label string
		id         uint32
	}{{"implant.sleep-obf.technique", "DEMON_CONFIG_IMPLANT_SLEEP_TECHNIQUE", 5}, {"memory.alloc", "DEMON_CONFIG_MEMORY_ALLOC", 101},
		{"memory.execute", "DEMON_CONFIG_MEMORY_EXECUTE", 102}, {"inject.technique", "DEMON_CONFIG_INJECTION_TECHNIQUE", 150}} {
		config(c.key, c.label, c.id, []Slot{sInt("Value")}, first, func(v []Val) []Arg { return []Arg{aI32("Value", uint32(v[0].U))} })
	}
	for _, c := range []struct {
		key, label string
		id         uint32
	}{{"implant.sleep-obf.start-addr", "DEMON_CONFIG_IMPLANT_SPFTHREADADDR", 3}, {"inject.spoofaddr", "DEMON_CONFIG_INJECTION_SPOOFADDR", 151}} {
		config(c.key, c.label, c.id, []Slot{sName("Library", "ntdll.dll"), sName("Function", "RtlUserThreadStart"), sHex("Offset", "0x")},
			func(v []Val) string { return v[0].S + "!" + v[1].S + "+" + v[2].S },
			func(v []Val) []Arg {
				return []Arg{aStr("Library", v[0].S), aStr("Function", v[1].S), aI32("Offset", uint32(v[2].U))}
			})
	}
	for _, c := range []struct {
		key, label string
		id         uint32
	}{{"inject.spawn64", "DEMON_CONFIG_INJECTION_SPAWN64", 152}, {"inject.spawn32", "DEMON_CONFIG_INJECTION_SPAWN32", 153}} {
		config(c.key, c.label, c.id, []Slot{sStr("Path")}, first,
			func(v []Val) []Arg { return []Arg{aWStr("Path", v[0].S).as(kBytes)} })
	}
	config("killdate", "DEMON_CONFIG_KILLDATE", 154,
		[]Slot{sEnum("Date", 1, Val{Label: "off", S: "0", U: 0},
			Val{Label: "2099-12-31 23:59:59", S: "2099-12-31 23:59:59", U: fileTime(4102444799)},
			Val{Label: "2100-01-01 00:00:00", S: "2100-01-01 00:00:00", U: fileTime(4102444800)})},
		first, func(v []Val) []Arg { return []Arg{aI64("Date", v[0].U)} })
	config("workinghours", "DEMON_CONFIG_WORKINGHOURS", 155,
		[]Slot{sEnum("Hours", 1, Val{Label: "off", S: "0", U: 0},
			Val{Label: "8:00-17:00", S: "8:00-17:00", U: uint64(workingHours(8, 0, 17, 0))},
			Val{Label: "0:00-23:59", S: "0:00-23:59", U: uint64(workingHours(0, 0, 23, 59))},
			Val{Label: "9:30-9:31", S: "9:30-9:31", U: uint64(workingHours(9, 30, 9, 31))},
			// every bit of every packed field: minutes 32..59 use the sixth bit, hours 16..23 the fifth
			Val{Label: "8:45-17:32", S: "8:45-17:32", U: uint64(workingHours(8, 45, 17, 32))},
			Val{Label: "16:59-23:08", S: "16:59-23:08", U: uint64(workingHours(16, 59, 23, 8))},
			Val{Label: "7:09-15:07", S: "7:09-15:07", U: uint64(workingHours(7, 9, 15, 7))})},
		first, func(v []Val) []Arg { return []Arg{aI32("Hours", uint32(v[0].U))} })

	add(&Variant{Name: "screenshot", Cmd: 2510, Handler: "CommandScreenshot", Info: none, Want: func(v []Val) []Arg { return nil }})

	// ---- net -------------------------------------------------------------------
	for _, n := range []struct {
		name, label string
		id          uint32
		target      bool
	}{{"domain", "DEMON_NET_COMMAND_DOMAIN", 1, false}, {"logons", "DEMON_NET_COMMAND_LOGONS", 2, true}, {"sessions", "DEMON_NET_COMMAND_SESSIONS", 3, true},
		{"computer", "DEMON_NET_COMMAND_COMPUTER", 4, false}, {"dclist", "DEMON_NET_COMMAND_DCLIST", 5, false}, {"share", "DEMON_NET_COMMAND_SHARE", 6, true},
		{"localgroup", "DEMON_NET_COMMAND_LOCALGROUP", 7, true}, {"group", "DEMON_NET_COMMAND_GROUP", 8, true}, {"users", "DEMON_NET_COMMAND_USER", 9, true}} {
		n := n
		v := &Variant{Name: "net/" + n.name, Cmd: 2100, Handler: "CommandNet", Case: n.label, CaseVal: n.id}
		if n.target {
			v.Slots = []Slot{sName("Target", `\\DC01`)}
			v.Info = func(x []Val) map[string]any {
				return map[string]any{"NetCommand": strconv.Itoa(int(n.id)), "Param": x[0].S}
			}
			v.Want = func(x []Val) []Arg { return []Arg{aI32("", n.id), aWStr("Target", x[0].S)} }
		} else {
			v.Info = func(x []Val) map[string]any {
				return map[string]any{"NetCommand": strconv.Itoa(int(n.id)), "Param": ""}
			}
			v.Want = func(x []Val) []Arg { return []Arg{aI32("", n.id)} }
		}
		add(v)
	}

	// ---- pivot -----------------------------------------------------------------
	add(&Variant{Name: "pivot/list", Cmd: 2520, Handler: "CommandPivot", Case: "DEMON_PIVOT_LIST", CaseVal: 1,
		Info: func(v []Val) map[string]any { return map[string]any{"Command": "1", "Param": ""} },
		Want: func(v []Val) []Arg { return []Arg{aI32("", 1)} }})
	add(&Variant{Name: "pivot/connect", Cmd: 2520, Handler: "CommandPivot", Case: "DEMON_PIVOT_SMB_CONNECT", CaseVal: 10,
		Slots: []Slot{sName("Pipe", `\\HOST\pipe\demo`)},
		Info:  func(v []Val) map[string]any { return map[string]any{"Command": "10", "Param": v[0].S} },
		Want:  func(v []Val) []Arg { return []Arg{aI32("", 10), aWStr("Pipe", v[0].S).as(kBytes)} }})
	add(&Variant{Name: "pivot/disconnect", Cmd: 2520, Handler: "CommandPivot", Case: "DEMON_PIVOT_SMB_DISCONNECT", CaseVal: 11,
		Slots: []Slot{sHex("AgentID", "")},
		Info:  func(v []Val) map[string]any { return map[string]any{"Command": "11", "Param": v[0].S} },
		Want:  func(v []Val) []Arg { return []Arg{aI32("", 11), aI32("AgentID", uint32(v[0].U))} }})

	// ---- transfer --------------------------------------------------------------
	add(&Variant{Name: "transfer/list", Cmd: 2530, Handler: "CommandTransfer", Case: "DEMON_COMMAND_TRANSFER_LIST", CaseVal: 0,
		Info: func(v []Val) map[string]any { return map[string]any{"Command": "list", "FileID": ""} },
		Want: func(v []Val) []Arg { return []Arg{aI32("", 0)} }})
	for _, t := range []struct {
		n, l string
		id   uint32
	}{{"stop", "DEMON_COMMAND_TRANSFER_STOP", 1}, {"resume", "DEMON_COMMAND_TRANSFER_RESUME", 2}, {"remove", "DEMON_COMMAND_TRANSFER_REMOVE", 3}} {
		t := t
		add(&Variant{Name: "transfer/" + t.n, Cmd: 2530, Handler: "CommandTransfer", Case: t.l, CaseVal: t.id,
			Slots: []Slot{sHex("FileID", "")},
			Info:  func(v []Val) map[string]any { return map[string]any{"Command": t.n, "FileID": v[0].S} },
			Want:  func(v []Val) []Arg { return []Arg{aI32("", t.id), aI32("FileID", uint32(v[0].U))} }})
	}

	// ---- socket (reverse port forwards; the socks5 commands create no task) ------
	ips := []Val{en("0.0.0.0", uint64(ipWord("0.0.0.0"))), en("127.0.0.1", uint64(ipWord("127.0.0.1"))),
		en("10.1.2.3", uint64(ipWord("10.1.2.3"))), en("255.255.255.255", uint64(ipWord("255.255.255.255")))}
	ports := func(name string) Slot {
		return sEnum(name, 2, Val{Label: "0", S: "0", U: 0}, Val{Label: "1", S: "1", U: 1}, Val{Label: "4444", S: "4444", U: 4444}, Val{Label: "65535", S: "65535", U: 65535})
	}
	add(&Variant{Name: "rportfwd/add", Cmd: 2540, Handler: "CommandSocket", Case: "SOCKET_COMMAND_RPORTFWD_ADD", CaseVal: 0,
		Slots: []Slot{sEnum("LclAddr", 1, ips...), ports("LclPort"), sEnum("FwdAddr", 2, ips...), ports("FwdPort")},
		Info: func(v []Val) map[string]any {
			return map[string]any{"Command": "rportfwd add", "Params": strings.Join([]string{v[0].S, v[1].S, v[2].S, v[3].S}, ";")}
		},
		Want: func(v []Val) []Arg {
			return []Arg{aI32("", 0), aI32("LclAddr", uint32(v[0].U)), aI32("LclPort", uint32(v[1].U)), aI32("FwdAddr", uint32(v[2].U)), aI32("FwdPort", uint32(v[3].U))}
		}})
	add(&Variant{Name: "rportfwd/list", Cmd: 2540, Handler: "CommandSocket", Case: "SOCKET_COMMAND_RPORTFWD_LIST", CaseVal: 2,
		Info: func(v []Val) map[string]any { return map[string]any{"Command": "rportfwd list", "Params": ""} },
		Want: func(v []Val) []Arg { return []Arg{aI32("", 2)} }})
	add(&Variant{Name: "rportfwd/remove", Cmd: 2540, Handler: "CommandSocket", Case: "SOCKET_COMMAND_RPORTFWD_REMOVE", CaseVal: 4,
		Slots: []Slot{sHex("SocketID", "")},
		Info:  func(v []Val) map[string]any { return map[string]any{"Command": "rportfwd remove", "Params": v[0].S} },
		Want:  func(v []Val) []Arg { return []Arg{aI32("", 4), aI32("SocketID", uint32(v[0].U))} }})
	add(&Variant{Name: "rportfwd/clear", Cmd: 2540, Handler: "CommandSocket", Case: "SOCKET_COMMAND_RPORTFWD_CLEAR", CaseVal: 3,
		Info: func(v []Val) map[string]any { return map[string]any{"Command": "rportfwd clear", "Params": ""} },
		Want: func(v []Val) []Arg { return []Arg{aI32("", 3)} }})

	// ---- kerberos --------------------------------------------------------------
	add(&Variant{Name: "kerberos/luid", Cmd: 2550, Handler: "CommandKerberos", Case: "KERBEROS_COMMAND_LUID", CaseVal: 0,
		Info: func(v []Val) map[string]any { return map[string]any{"Command": "luid"} },
		Want: func(v []Val) []Arg { return []Arg{aI32("", 0)} }})
	add(&Variant{Name: "kerberos/klist-all", Cmd: 2550, Handler: "CommandKerberos", Case: "KERBEROS_COMMAND_KLIST", CaseVal: 1, Partial: true,
		Info: func(v []Val) map[string]any {
			return map[string]any{"Command": "klist", "Argument1": "/all", "Argument2": ""}
		},
		Want: func(v []Val) []Arg { return []Arg{aI32("", 1), aI32("", 0)} }})
	luid := func() Slot {
		s := sHex("Luid", "0x")
		s.Dom = append(s.Dom, Val{Label: "3e7-unprefixed", S: "3e7", U: 0x3e7})
		return s
	}
	add(&Variant{Name: "kerberos/klist-luid", Cmd: 2550, Handler: "CommandKerberos", Case: "KERBEROS_COMMAND_KLIST", CaseVal: 1,
		Slots: []Slot{luid()},
		Info: func(v []Val) map[string]any {
			return map[string]any{"Command": "klist", "Argument1": "/luid", "Argument2": v[0].S}
		},
		Want: func(v []Val) []Arg { return []Arg{aI32("", 1), aI32("", 1), aI32("Luid", uint32(v[0].U))} }})
	add(&Variant{Name: "kerberos/purge", Cmd: 2550, Handler: "CommandKerberos", Case: "KERBEROS_COMMAND_PURGE", CaseVal: 2,
		Slots: []Slot{luid()},
		Info:  func(v []Val) map[string]any { return map[string]any{"Command": "purge", "Argument": v[0].S} },
		Want:  func(v []Val) []Arg { return []Arg{aI32("", 2), aI32("Luid", uint32(v[0].U))} }})
	add(&Variant{Name: "kerberos/ptt", Cmd: 2550, Handler: "CommandKerberos", Case: "KERBEROS_COMMAND_PTT", CaseVal: 3,
		Slots: []Slot{sBlob("Ticket", 0xa1), luid()},
		Info: func(v []Val) map[string]any {
			return map[string]any{"Command": "ptt", "Ticket": v[0].S, "Luid": v[1].S}
		},
		Want: func(v []Val) []Arg {
			return []Arg{aI32("", 3), aBytes("Ticket", v[0].Raw), aI32("Luid", uint32(v[1].U))}
		}})

	return vs
}

// skipped lists what TaskPrepare has a case for but the table leaves out, with the reason.
var skipped = []string{
	"COMMAND_PROC_PPIDSPOOF (27): the Demon's DemonCommands table has no handler for it, nothing reads the task",
	"COMMAND_PROC sub-command 5 ('TODO: is this used?'): CommandProc has no case 5",
	"COMMAND_SOCKET 'socks add|list|kill|clear': handled inside the teamserver (listening socket), no task is queued for the operator's command; the SOCKET_COMMAND_CONNECT/WRITE/CLOSE tasks are produced by socks5 client traffic, not by an operator package",
	"COMMAND_PIVOT sub-command 12 (SMB_COMMAND): built by PivotAddJob for a linked child, not an operator command",
}
