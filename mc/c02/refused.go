package c02

import (
	"fmt"

	"verifmc/demonwire"
	"verifmc/seam"
)

// Part R: what the operator is refused does not reach the agent.  For every row of the
// table and every numeric slot (decimal numbers, hexadecimal ids) the default request is
// sent with that one slot spelt as something that is no number ("zz", "1x", "").  Whether
// the teamserver refuses such a request or reads a zero out of it is its business; but if
// it tells the operator that the task could not be created, the next check-in of that
// agent carries no task, and the request id is not outstanding.
func (w *worker) refused(vs []*Variant) {
	k := keys[0]
	id := agentID(k)
	key, iv := seam.Key(k), seam.IV(k)
	a := w.ts.Agent(id)
	for _, v := range vs {
		for si, sl := range v.Slots {
			numeric := len(sl.Dom) == len(intVals) && sl.Dom[len(sl.Dom)-1].U == intVals[len(intVals)-1]
			if !numeric {
				continue
			}
			for _, bad := range []string{"zz", "1x", ""} {
				c := defaultCase(v, 1)
				c.Vals = append([]Val{}, c.Vals...)
				c.Vals[si] = Val{Label: "not-a-number", S: bad}
				for len(a.JobQueue) != 0 {
					w.ts.Post(demonwire.CheckIn(id, key, iv))
				}
				nTasks := len(a.Tasks)
				added, pan, console := w.dispatch(c, id)
				w.r.Eval(1)
				detail := map[string]any{"command": v.Name, "slot": sl.Name, "value": bad, "console": console}
				switch {
				case pan != nil:
					w.r.Outcome("refused/panic-on-malformed-number (not judged here)")
				case console == "":
					w.r.Outcome("refused/accepted-or-silent")
				case added != 0 || len(a.Tasks) != nTasks:
					res := w.ts.Post(demonwire.CheckIn(id, key, iv))
					tasks, _, _ := readStream(res.Body, key, iv, w.src.LoopOp)
					var got []string
					for _, t := range tasks {
						if t.Cmd != cmdNoJob {
							got = append(got, fmt.Sprintf("command %d request %08x body %d bytes", t.Cmd, t.ReqID, len(t.Body)))
						}
					}
					detail["handed_out"] = got
					w.r.Violate("refused-task-reaches-agent/"+v.Name, fmt.Sprintf("the operator was told %q, yet %d task(s) were queued for the agent and %d request id(s) became outstanding: %v", console, added, len(a.Tasks)-nTasks, got), detail)
					// forget what was registered so that the next case starts clean
					a.Tasks = a.Tasks[:nTasks]
				default:
					w.r.Outcome("refused/nothing-queued")
				}
			}
		}
	}
	for len(a.JobQueue) != 0 {
		w.ts.Post(demonwire.CheckIn(id, key, iv))
	}
}
