// Package vsync replaces package sync in instrumented code.  Every operation is a
// scheduling point under an installed scheduler; with none installed the types
// delegate to the real sync primitives.
package vsync

import (
	"sync"

	"verifmc/vsched"
)

type Locker = sync.Locker
type Once = sync.Once
type WaitGroup = sync.WaitGroup
type Cond = sync.Cond

var NewCond = sync.NewCond

// Registry of mutexes locked outside a scheduler (sequential harnesses): where each
// was last locked, so a leaked lock can be reported with its lock site.
var (
	regMu sync.Mutex
	held  = map[*Mutex]string{}
)

// HeldSequential lists mutexes currently held (sequential mode).
func HeldSequential() []string {
	regMu.Lock()
	defer regMu.Unlock()
	var out []string
	for _, w := range held {
		out = append(out, w)
	}
	return out
}

func ResetSequential() {
	regMu.Lock()
	held = map[*Mutex]string{}
	regMu.Unlock()
}

type Mutex struct {
	real   sync.Mutex
	locked bool // scheduler mode only
}

func (m *Mutex) Lock() {
	s := vsched.Active()
	if s == nil {
		m.real.Lock()
		regMu.Lock()
		held[m] = vsched.Caller(2)
		regMu.Unlock()
		return
	}
	if s.Aborted() {
		return
	}
	where := vsched.Caller(2)
	s.YieldIf("sync.Mutex", "Lock@"+where)
	for m.locked {
		if s.Aborted() {
			return
		}
		s.Block("mutex locked at "+where, func() bool { return !m.locked })
	}
	m.locked = true
	s.NoteHeld(m, where)
}

func (m *Mutex) TryLock() bool {
	s := vsched.Active()
	if s == nil {
		ok := m.real.TryLock()
		if ok {
			regMu.Lock()
			held[m] = vsched.Caller(2)
			regMu.Unlock()
		}
		return ok
	}
	s.Yield("TryLock")
	if m.locked {
		return false
	}
	m.locked = true
	s.NoteHeld(m, vsched.Caller(2))
	return true
}

func (m *Mutex) Unlock() {
	s := vsched.Active()
	if s == nil {
		regMu.Lock()
		delete(held, m)
		regMu.Unlock()
		m.real.Unlock()
		return
	}
	if s.Aborted() {
		return
	}
	if !m.locked {
		panic("sync: unlock of unlocked mutex")
	}
	m.locked = false
	s.NoteReleased(m)
	s.YieldIf("sync.Mutex", "Unlock")
}

type RWMutex struct{ Mutex }

func (m *RWMutex) RLock()   { m.Lock() }
func (m *RWMutex) RUnlock() { m.Unlock() }

// Map replaces sync.Map.  Under a scheduler every operation is a scheduling point and
// Range visits a snapshot in insertion order (any order is allowed by sync.Map's
// contract; a fixed one keeps executions deterministic).
type Map struct {
	mu   sync.Mutex
	keys []any
	vals map[any]any
}

func pt(op string) {
	if s := vsched.Active(); s != nil && !s.Aborted() {
		s.YieldIf("sync.Map", "Map."+op)
	}
}

func (m *Map) Load(k any) (any, bool) {
	pt("Load")
	m.mu.Lock()
	defer m.mu.Unlock()
	v, ok := m.vals[k]
	return v, ok
}

func (m *Map) Store(k, v any) {
	pt("Store")
	m.mu.Lock()
	defer m.mu.Unlock()
	if m.vals == nil {
		m.vals = map[any]any{}
	}
	if _, ok := m.vals[k]; !ok {
		m.keys = append(m.keys, k)
	}
	m.vals[k] = v
}

func (m *Map) LoadOrStore(k, v any) (any, bool) {
	pt("LoadOrStore")
	m.mu.Lock()
	defer m.mu.Unlock()
	if m.vals == nil {
		m.vals = map[any]any{}
	}
	if o, ok := m.vals[k]; ok {
		return o, true
	}
	m.keys = append(m.keys, k)
	m.vals[k] = v
	return v, false
}

func (m *Map) Delete(k any) {
	pt("Delete")
	m.mu.Lock()
	defer m.mu.Unlock()
	if _, ok := m.vals[k]; !ok {
		return
	}
	delete(m.vals, k)
	for i, x := range m.keys {
		if x == k {
			m.keys = append(m.keys[:i:i], m.keys[i+1:]...)
			break
		}
	}
}

func (m *Map) LoadAndDelete(k any) (any, bool) {
	v, ok := m.Load(k)
	if ok {
		m.Delete(k)
	}
	return v, ok
}

func (m *Map) Range(f func(k, v any) bool) {
	pt("Range")
	m.mu.Lock()
	keys := append([]any(nil), m.keys...)
	m.mu.Unlock()
	for _, k := range keys {
		m.mu.Lock()
		v, ok := m.vals[k]
		m.mu.Unlock()
		if !ok {
			continue
		}
		if !f(k, v) {
			return
		}
		pt("Range.next")
	}
}

// Pool replaces sync.Pool.  sync.Pool promises nothing about which object Get returns; a
// last-in-first-out free list is one of its behaviours and a deterministic one.  Get is a
// scheduling point before it takes an object; Put is one AFTER it has given the object
// back: from there on somebody else may be handed the same object, which is exactly the
// window in which a caller that still uses what it has put back goes wrong.
type Pool struct {
	New  func() any
	mu   sync.Mutex
	free []any
}

func (p *Pool) Get() any {
	if s := vsched.Active(); s != nil && !s.Aborted() {
		s.YieldIf("sync.Pool", "Pool.Get")
	}
	p.mu.Lock()
	var x any
	if n := len(p.free); n > 0 {
		x, p.free = p.free[n-1], p.free[:n-1]
	}
	p.mu.Unlock()
	if x == nil && p.New != nil {
		x = p.New()
	}
	return x
}

func (p *Pool) Put(x any) {
	if x == nil {
		return
	}
	p.mu.Lock()
	p.free = append(p.free, x)
	p.mu.Unlock()
	if s := vsched.Active(); s != nil && !s.Aborted() {
		s.YieldIf("sync.Pool", "Pool.Put")
	}
}
