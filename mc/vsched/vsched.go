// Package vsched is the controlled scheduler.  Instrumented code (see cmd/instr) calls
// Point before every statement that touches a tracked shared field, Tick on loop back
// edges, Go instead of the go statement, and uses vsync instead of sync.  With no
// scheduler installed every call is a cheap no-op (Go starts a real goroutine), so
// the same binary runs sequential harnesses.
//
// With a scheduler installed, managed threads are real goroutines of which exactly
// one runs at a time; at every scheduling point control returns to the scheduler,
// which asks the explore.Chooser which enabled thread runs next.  Enabled threads are
// offered in canonical order: the running one first (if still enabled), then
// ascending ids; choosing another thread while the running one is enabled costs one
// deviation (a preemption).
package vsched

import (
	"fmt"
	"runtime"
	"strings"
	"sync/atomic"

	"verifmc/explore"
)

type thread struct {
	id      int
	name    string
	wake    chan struct{}
	done    bool
	started bool
	pred    func() bool // nil = enabled
	why     string
	yielded bool // parked at a spin-loop yield: others go first
	// spinMode: the thread is going round a polling loop (set at a spin yield, cleared when
	// it blocks, or passes 64 other scheduling points without coming back to the spin
	// yield).  A step of a thread in spin mode is not "progress": it does not re-arm the
	// other spin-yielders - otherwise two pollers re-arm each other for ever, Settle never
	// sees them quiescent, and choosing between them is an unbounded chain of free choices.
	spinMode  bool
	sinceSpin int
	progress  bool // accepted a connection since the last back edge of a condition-less loop (NoteProgress)
	spinSeen  int // back edges of condition-less loops taken since the thread last blocked (see Sched.SpinFree)
	lastRun   int
	settling bool // parked in Settle (counts as quiescent for other settlers)
	fn      func()
	panicV  any
	panicAt string
}

// Sched is one controlled execution.
type Sched struct {
	c        *explore.Chooser
	threads  []*thread
	cur      *thread
	back     chan struct{} // thread -> scheduler hand-off
	focus    map[string]bool
	focusAll bool
	locCache map[string]bool
	Horizon  int
	steps    int
	aborted  bool

	// results
	Deadlock    bool
	DeadlockWhy string
	HorizonHit  bool
	Panics      []string
	Trace       []string // (thread, location) per scheduling decision, for replay artefacts
	held        map[any]string
	blockedWhy  []string

	TickBudget int
	// SpinFree: a condition-less `for {` loop is a polling candidate, and a thread that goes
	// round one is made to let the others go first (fair scheduling).  But most such loops
	// in the code under test are not polling loops (a parser's package loop, one turn per
	// pivot hop): forcing the others to run first at their back edge removes exactly the
	// schedules in which the looping thread gets through a window undisturbed.  With
	// SpinFree = n the first n back edges a thread takes between two blocking operations
	// are ordinary steps; only a loop that keeps turning is treated as polling.  0 (the
	// default, used by the relay harness whose loops do poll) yields at every back edge.
	SpinFree int
	ticks      int
	noExplore  bool
}

// SetExplore(false) makes every scheduling decision take the default (no choice point
// is recorded) until SetExplore(true): a harness uses it for its deterministic setup
// phase, so that only the part under test is explored.
func (s *Sched) SetExplore(on bool) { s.noExplore = !on }

// BlockedOnly reports, after Run ended in Deadlock, whether every unfinished thread was
// waiting for one of the given kinds of external input (prefixes of the wait reason,
// e.g. "accept ", "read "): the execution is then quiescent rather than deadlocked.
func (s *Sched) BlockedOnly(prefixes ...string) bool {
	for _, w := range s.blockedWhy {
		ok := false
		for _, p := range prefixes {
			if strings.HasPrefix(w, p) {
				ok = true
			}
		}
		if !ok {
			return false
		}
	}
	return true
}

var cur atomic.Pointer[Sched]

type abortT struct{}

// IsAbort reports whether a recovered panic value is the scheduler's own teardown signal.
func IsAbort(p any) bool { _, ok := p.(abortT); return ok }

// Instrumented reports whether the binary was built with the sched overlay.
var Instrumented = false

// MarkInstrumented is called from an init() the instrumenter adds.
func MarkInstrumented() { Instrumented = true }

// sequential-mode loop budget (no scheduler installed)
var seqTicks int64
var seqBudget int64 = 0

type LoopBudgetExceeded struct{ N int64 }

func (l LoopBudgetExceeded) Error() string {
	return fmt.Sprintf("loop budget exceeded: more than %d loop iterations in one top-level call", l.N)
}

// SetSeqBudget arms the sequential loop budget (0 disarms) and resets the counter.
func SetSeqBudget(n int64) { atomic.StoreInt64(&seqBudget, n); atomic.StoreInt64(&seqTicks, 0) }
func SeqTicks() int64      { return atomic.LoadInt64(&seqTicks) }

// New creates a scheduler for one execution.  focus lists the tracked field names that
// are live scheduling points ("*" = all).
func New(c *explore.Chooser, horizon int, focus ...string) *Sched {
	s := &Sched{c: c, back: make(chan struct{}), focus: map[string]bool{}, locCache: map[string]bool{},
		Horizon: horizon, held: map[any]string{}, TickBudget: 20000}
	for _, f := range focus {
		if f == "*" {
			s.focusAll = true
		}
		s.focus[f] = true
	}
	return s
}

// Spawn registers a managed thread before Run.
func (s *Sched) Spawn(name string, f func()) {
	t := &thread{id: len(s.threads), name: name, wake: make(chan struct{}), fn: f}
	s.threads = append(s.threads, t)
}

func (s *Sched) startThread(t *thread) {
	t.started = true
	go func() {
		<-t.wake
		defer func() {
			if p := recover(); p != nil {
				if _, ok := p.(abortT); !ok {
					t.panicV = p
					t.panicAt = stackTop()
					s.Panics = append(s.Panics, fmt.Sprintf("%s: %v @ %s", t.name, p, t.panicAt))
				}
			}
			t.done = true
			s.back <- struct{}{}
		}()
		if s.aborted {
			panic(abortT{})
		}
		t.fn()
	}()
}

func stackTop() string {
	pc := make([]uintptr, 64)
	n := runtime.Callers(3, pc)
	fr := runtime.CallersFrames(pc[:n])
	for {
		f, more := fr.Next()
		if strings.HasPrefix(f.Function, "Havoc/") {
			return strings.TrimPrefix(strings.TrimPrefix(f.Function, "Havoc/"), "pkg/")
		}
		if !more {
			break
		}
	}
	return "?"
}

// Run executes all threads to completion (or deadlock / horizon) under the chooser.
func (s *Sched) Run() {
	cur.Store(s)
	defer cur.Store(nil)
	for {
		var enabled []*thread
		unfinished := 0
		for _, t := range s.threads {
			if t.done {
				continue
			}
			unfinished++
			if t.pred == nil || t.pred() {
				enabled = append(enabled, t)
			}
		}
		if unfinished == 0 {
			return
		}
		if len(enabled) == 0 {
			s.Deadlock = true
			var why []string
			for _, t := range s.threads {
				if !t.done {
					why = append(why, fmt.Sprintf("%s waits for %s", t.name, t.why))
					s.blockedWhy = append(s.blockedWhy, t.why)
				}
			}
			for _, h := range s.held {
				why = append(why, "held: "+h)
			}
			s.DeadlockWhy = strings.Join(why, "; ")
			s.abort()
			return
		}
		if s.steps >= s.Horizon {
			s.HorizonHit = true
			s.abort()
			return
		}
		s.steps++
		// canonical order: running thread first if enabled and not parked at a spin yield;
		// then ascending ids; threads parked at a spin yield last.
		var order []*thread
		curEnabled := false
		for _, t := range enabled {
			if t == s.cur && !t.yielded {
				curEnabled = true
			}
		}
		if curEnabled {
			order = append(order, s.cur)
		}
		for _, t := range enabled {
			if !(t == s.cur && curEnabled) && !t.yielded {
				order = append(order, t)
			}
		}
		// threads parked at a spin-loop yield run only when nothing else can (fair
		// scheduling: a polling loop must not starve the threads it waits for); which of
		// several spinners goes first is immaterial, so that is not a choice point
		onlySpinners := len(order) == 0
		if onlySpinners {
			// the least recently run one (round robin: every poller gets to see what the others did)
			var pickT *thread
			for _, t := range enabled {
				if t.yielded && (pickT == nil || t.lastRun < pickT.lastRun) {
					pickT = t
				}
			}
			if pickT != nil {
				order = append(order, pickT)
			}
		}
		pick := 0
		if len(order) > 1 && !s.noExplore {
			costs := make([]int, len(order))
			for i := 1; i < len(order); i++ {
				if curEnabled {
					costs[i] = 1
				}
			}
			pick = s.c.ChooseCost(len(order), "sched", costs)
		}
		t := order[pick]
		// progress by a thread that is not itself polling re-arms the spin-yielders
		if !t.yielded && !t.spinMode {
			for _, o := range s.threads {
				o.yielded = false
			}
		}
		t.yielded = false
		t.lastRun = s.steps
		t.pred = nil
		s.cur = t
		if len(s.Trace) < 3000 {
			s.Trace = append(s.Trace, t.name+":"+t.why)
		}
		if !t.started {
			s.startThread(t)
		}
		t.wake <- struct{}{}
		<-s.back
	}
}

func (s *Sched) abort() {
	s.aborted = true
	for _, t := range s.threads {
		if t.done {
			continue
		}
		if !t.started {
			t.done = true
			continue
		}
		s.cur = t
		t.wake <- struct{}{}
		<-s.back
	}
}

// Aborted reports that the execution is being torn down (vsync must not block).
func (s *Sched) Aborted() bool { return s.aborted }

// yield parks the current thread until the scheduler picks it again.
func (s *Sched) yield(why string, pred func() bool) {
	if s.aborted {
		return
	}
	t := s.cur
	t.why = why
	t.pred = pred
	if why != "spin" {
		t.sinceSpin++
		if pred != nil || t.sinceSpin > 64 {
			t.spinMode = false
		}
		if pred != nil {
			t.spinSeen = 0
		}
	}
	s.back <- struct{}{}
	<-t.wake
	if s.aborted {
		panic(abortT{})
	}
}

func (s *Sched) live(loc string) bool {
	if s.focusAll {
		return true
	}
	if v, ok := s.locCache[loc]; ok {
		return v
	}
	fields := loc
	if i := strings.IndexByte(loc, '@'); i >= 0 {
		fields = loc[:i]
	}
	v := false
	for _, f := range strings.Split(fields, ",") {
		if s.focus[f] {
			v = true
		}
	}
	s.locCache[loc] = v
	return v
}

// Point is a scheduling point before an access to a tracked location.
// loc is "Field1,Field2@file.go:line".
func Point(loc string) {
	s := cur.Load()
	if s == nil || s.cur == nil {
		return
	}
	if !s.live(loc) {
		return
	}
	s.yield(loc, nil)
}

// Tick is called on every loop back edge; spin reports a condition-less `for {` loop
// (a polling candidate): under the scheduler it yields and lets the others go first.
func Tick(spin bool) {
	s := cur.Load()
	if s == nil || s.cur == nil {
		if b := atomic.LoadInt64(&seqBudget); b > 0 {
			if atomic.AddInt64(&seqTicks, 1) > b {
				panic(LoopBudgetExceeded{b})
			}
		}
		return
	}
	s.ticks++
	if s.ticks > s.TickBudget {
		s.HorizonHit = true
		panic(abortT{})
	}
	if spin {
		if s.cur.progress {
			// an accept loop that has just been handed a connection is not polling: it goes
			// round again like any other thread (and may be handed the next connection before
			// the goroutine it spawned for the first one has run)
			s.cur.progress = false
			return
		}
		if s.SpinFree > 0 {
			s.cur.spinSeen++
			if s.cur.spinSeen <= s.SpinFree {
				return
			}
		}
		s.cur.yielded = true
		s.cur.spinMode = true
		s.cur.sinceSpin = 0
		s.yield("spin", nil)
	}
}

// NoteProgress is called by the scripted listener when Accept hands out a connection.
func NoteProgress() {
	if s := cur.Load(); s != nil && s.cur != nil {
		s.cur.progress = true
	}
}

// Go replaces the go statement.
func Go(f func()) {
	s := cur.Load()
	if s == nil || s.cur == nil {
		go f()
		return
	}
	t := &thread{id: len(s.threads), name: fmt.Sprintf("g%d", len(s.threads)), wake: make(chan struct{}), fn: f}
	s.threads = append(s.threads, t)
	s.yield("go", nil)
}

// Active returns the installed scheduler when called from a managed thread.
func Active() *Sched {
	s := cur.Load()
	if s == nil || s.cur == nil {
		return nil
	}
	return s
}

// Block parks the calling managed thread until pred holds (pred is evaluated by the
// scheduler with no thread running).
func (s *Sched) Block(why string, pred func() bool) { s.yield(why, pred) }

// Yield is a plain scheduling point (used by vsync and the fakes).
func (s *Sched) Yield(why string) { s.yield(why, nil) }

// YieldIf is a scheduling point that is live only if class is in the focus set
// ("sync.Map", "sync.Mutex": harnesses that do not list them still get blocking
// semantics, but no extra interleaving points at these operations).
func (s *Sched) YieldIf(class, why string) {
	if s.focusAll || s.focus[class] {
		s.yield(why, nil)
	}
}

// Quiescent returns a predicate that holds when every thread other than the caller is
// finished, blocked, or parked at a spin-loop yield: "everything else has run as far as
// it can".  A harness driver blocks on it between steps.
func (s *Sched) Quiescent() func() bool {
	me := s.cur
	return func() bool {
		for _, t := range s.threads {
			if t == me || t.done {
				continue
			}
			if t.yielded || t.settling {
				continue
			}
			if t.pred != nil && !t.pred() {
				continue
			}
			return false
		}
		return true
	}
}

// Settle blocks the calling managed thread until all other threads are quiescent.
func (s *Sched) Settle() {
	t := s.cur
	t.settling = true
	s.yield("settle", s.Quiescent())
	t.settling = false
}

func (s *Sched) NoteHeld(m any, where string) { s.held[m] = where }
func (s *Sched) NoteReleased(m any)           { delete(s.held, m) }

// Held lists mutexes still held (after Run: a leaked lock).
func (s *Sched) Held() []string {
	var out []string
	for _, h := range s.held {
		out = append(out, h)
	}
	return out
}

func (s *Sched) Steps() int { return s.steps }

// Caller returns "file.go:Func" of the instrumented caller of a vsync operation.
func Caller(skip int) string {
	pc, _, _, ok := runtime.Caller(skip)
	if !ok {
		return "?"
	}
	f := runtime.FuncForPC(pc)
	if f == nil {
		return "?"
	}
	return strings.TrimPrefix(strings.TrimPrefix(f.Name(), "Havoc/"), "pkg/")
}
