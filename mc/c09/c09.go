// Package c09: "The pivot graph is always a consistent forest, mirrored in the database".
//
// Explicit-state BFS to a fixpoint over real pivot events (SMB connect with an inner
// registration or an existing id, SMB disconnect, exit, kill-date callbacks through the
// HTTP listener — relayed through the real parent chain when the sender is a pivot —
// and operator mark-dead / mark-alive through DispatchEvent) on a real teamserver with
// a real SQLite file, over a universe of four agents.  After every event the forest
// invariants I1–I6 are evaluated on the in-memory graph and the raw TS_Links rows.
package c09

import (
	"database/sql"
	"fmt"
	"path/filepath"
	"sort"
	"strings"
	"time"

	"Havoc/pkg/agent"
	"Havoc/pkg/packager"

	"verifmc/demonwire"
	"verifmc/ev"
	"verifmc/par"
	"verifmc/seam"
)

var ids = []uint32{0xa1, 0xb2, 0xc3, 0xd4}
var names = map[uint32]string{0xa1: "A", 0xb2: "B", 0xc3: "C", 0xd4: "D", 0x99: "?"}

func kidx(id uint32) byte {
	for i, x := range ids {
		if x == id {
			return byte(i + 1)
		}
	}
	return 9
}

type event struct {
	kind string // connect, disconnect, exit, killdate, markdead, markalive
	p, x uint32
}

func (e event) String() string {
	switch e.kind {
	case "connect", "disconnect", "connect-hdr0":
		return fmt.Sprintf("%s(%s,%s)", e.kind, names[e.p], names[e.x])
	}
	return fmt.Sprintf("%s(%s)", e.kind, names[e.p])
}

// the fixed event alphabet; enabledness is decided per state
func alphabet() []event {
	var a []event
	for _, p := range ids {
		for _, x := range ids {
			a = append(a, event{"connect", p, x})
		}
	}
	// a connect whose relayed registration names x in its metadata but carries 0 as the
	// sender's id in its header: not a registration of anybody (no effect on the graph)
	for _, p := range ids[:2] {
		for _, x := range ids {
			a = append(a, event{"connect-hdr0", p, x})
		}
	}
	for _, p := range ids {
		for _, x := range append(append([]uint32{}, ids...), 0x99) {
			a = append(a, event{"disconnect", p, x})
		}
	}
	for _, k := range []string{"exit", "killdate", "markdead", "markalive"} {
		for _, p := range ids {
			a = append(a, event{k, p, 0})
		}
	}
	return a
}

type world struct {
	ts   *seam.TS
	died map[uint32]bool
	req  uint32
}

func newWorld() *world {
	ts := seam.New(seam.Options{})
	ts.MustRegister(ids[0], 1)
	ts.MustRegister(ids[1], 2)
	return &world{ts: ts, died: map[uint32]bool{}, req: 0x7000}
}

// chain returns the real parent chain of id up to a directly connected agent
// (A or B can always talk directly); ok=false if id cannot be reached (orphan pivot,
// or a cycle in the real graph).
func (w *world) chain(id uint32) ([]*agent.Agent, bool) {
	a := w.ts.Agent(id)
	if a == nil {
		return nil, false
	}
	if id == ids[0] || id == ids[1] {
		return []*agent.Agent{a}, true
	}
	var out []*agent.Agent
	seen := map[*agent.Agent]bool{}
	for cur := a; cur != nil; cur = cur.Pivots.Parent {
		if seen[cur] {
			return nil, false
		}
		seen[cur] = true
		out = append(out, cur)
		if cur.NameID == fmt.Sprintf("%08x", ids[0]) || cur.NameID == fmt.Sprintf("%08x", ids[1]) {
			return out, true
		}
	}
	return nil, false
}

func idOf(a *agent.Agent) uint32 {
	var v uint32
	fmt.Sscanf(a.NameID, "%x", &v)
	return v
}

// send delivers one callback from agent `from`, wrapped once per hop of its real chain.
func (w *world) send(from uint32, sub demonwire.Sub) seam.Result {
	ch, ok := w.chain(from)
	if !ok {
		return seam.Result{Status: -1}
	}
	cur := sub
	for i := 0; i < len(ch)-1; i++ {
		id := idOf(ch[i])
		pkg := demonwire.CallbacksOnly(id, seam.Key(kidx(id)), seam.IV(kidx(id)), cur)
		b := &demonwire.W{}
		b.I32(agent.DEMON_PIVOT_SMB_COMMAND).Bytes(pkg)
		cur = demonwire.Sub{Cmd: agent.COMMAND_PIVOT, ReqID: 0, Body: b.B}
	}
	root := idOf(ch[len(ch)-1])
	return w.ts.Post(demonwire.CheckIn(root, seam.Key(kidx(root)), seam.IV(kidx(root)), cur))
}

func (w *world) enabled() []int {
	var out []int
	for i, e := range alphabet() {
		switch e.kind {
		case "connect", "disconnect", "exit", "killdate", "connect-hdr0":
			if _, ok := w.chain(e.p); !ok {
				continue
			}
		case "markdead", "markalive":
			if w.ts.Agent(e.p) == nil {
				continue
			}
		}
		out = append(out, i)
	}
	return out
}

// apply executes the event on the real teamserver; returns panic text or "".
func (w *world) apply(e event) (string, string) {
	switch e.kind {
	case "connect":
		var inner []byte
		k := kidx(e.x)
		if w.ts.Agent(e.x) == nil {
			inner = demonwire.Register(e.x, seam.Key(k), seam.IV(k), demonwire.DefaultMeta(e.x))
		} else {
			// a reconnecting Demon sends its header only (DEMON_INIT of an existing id)
			inner = demonwire.Header(demonwire.Magic, e.x, demonwire.DemonInit, 0, []byte{0, 0, 0, 0, 0, 0, 0, 0})
		}
		b := &demonwire.W{}
		b.I32(agent.DEMON_PIVOT_SMB_CONNECT).I32(1).Bytes(inner)
		r := w.send(e.p, demonwire.Sub{Cmd: agent.COMMAND_PIVOT, Body: b.B})
		if r.Panic != nil {
			return fmt.Sprint(r.Panic), r.Stack
		}
		if x := w.ts.Agent(e.x); x != nil && x.Active {
			delete(w.died, e.x)
		}
	case "connect-hdr0":
		k := kidx(e.x)
		inner := demonwire.Register(0, seam.Key(k), seam.IV(k), demonwire.DefaultMeta(e.x))
		b := &demonwire.W{}
		b.I32(agent.DEMON_PIVOT_SMB_CONNECT).I32(1).Bytes(inner)
		r := w.send(e.p, demonwire.Sub{Cmd: agent.COMMAND_PIVOT, Body: b.B})
		if r.Panic != nil {
			return fmt.Sprint(r.Panic), r.Stack
		}
	case "disconnect":
		b := &demonwire.W{}
		b.I32(agent.DEMON_PIVOT_SMB_DISCONNECT).I32(1).I32(e.x)
		w.req++
		if a := w.ts.Agent(e.p); a != nil {
			a.AddRequest(agent.Job{RequestID: w.req})
		}
		r := w.send(e.p, demonwire.Sub{Cmd: agent.COMMAND_PIVOT, ReqID: w.req, Body: b.B})
		if r.Panic != nil {
			return fmt.Sprint(r.Panic), r.Stack
		}
	case "exit", "killdate":
		w.req++
		a := w.ts.Agent(e.p)
		a.AddRequest(agent.Job{RequestID: w.req})
		b := &demonwire.W{}
		cmd := uint32(agent.COMMAND_EXIT)
		if e.kind == "exit" {
			b.I32(1)
		} else {
			cmd = agent.COMMAND_KILL_DATE
		}
		r := w.send(e.p, demonwire.Sub{Cmd: cmd, ReqID: w.req, Body: b.B})
		if r.Panic != nil {
			return fmt.Sprint(r.Panic), r.Stack
		}
		w.died[e.p] = true
	case "markdead", "markalive":
		mark := "Dead"
		if e.kind == "markalive" {
			mark = "Alive"
		}
		pk := packager.Package{Head: packager.Head{Event: packager.Type.Session.Type, User: "op1"},
			Body: packager.Body{SubEvent: packager.Type.Session.MarkAsDead, Info: map[string]any{"AgentID": fmt.Sprintf("%08x", e.p), "Marked": mark}}}
		var pn any
		var stack string
		func() {
			defer func() {
				if p := recover(); p != nil {
					pn = p
					stack = seam.StackTop()
				}
			}()
			w.ts.T.DispatchEvent(pk)
		}()
		if pn != nil {
			return fmt.Sprint(pn), stack
		}
		if mark == "Dead" {
			w.died[e.p] = true
		} else {
			delete(w.died, e.p)
		}
	}
	return "", ""
}

// rawLinks reads TS_Links directly (the db package offers no "all rows" accessor).
func (w *world) rawLinks() ([]string, error) {
	d, err := sql.Open("sqlite3", filepath.Join(w.ts.Root, "ts.db"))
	if err != nil {
		return nil, err
	}
	defer d.Close()
	rows, err := d.Query("SELECT ParentAgentID, LinkAgentID FROM TS_Links")
	if err != nil {
		return nil, err
	}
	defer rows.Close()
	var out []string
	for rows.Next() {
		var p, l int64
		rows.Scan(&p, &l)
		out = append(out, fmt.Sprintf("%s>%s", nm(uint32(p)), nm(uint32(l))))
	}
	sort.Strings(out)
	return out, nil
}

func nm(id uint32) string {
	if n, ok := names[id]; ok {
		return n
	}
	return fmt.Sprintf("%x", id)
}

// invariants returns (clause, description) of the first violated invariant.
func (w *world) invariants(last event) (string, string) {
	// I0: the event has returned, so nobody holds the database (a leaked cursor would make
	// every later write fail, and the link table would stop following the graph)
	if err := w.ts.DBIdle(); err != nil {
		return "I0-database-still-locked", fmt.Sprintf("after %s has returned the SQLite file is still locked by the teamserver (%v): a statement or result set was left open", last, err)
	}
	ags := w.ts.T.Agents.Agents
	seenID := map[string]bool{}
	for _, a := range ags {
		if seenID[a.NameID] {
			return "I7-two-sessions-one-id", fmt.Sprintf("two sessions have the id %s", a.NameID)
		}
		seenID[a.NameID] = true
	}
	// I1
	count := map[*agent.Agent]int{}
	for _, p := range ags {
		for _, l := range p.Pivots.Links {
			if l == nil {
				return "I1-nil-link", fmt.Sprintf("%s has a nil entry in its link list", nm(idOf(p)))
			}
			count[l]++
		}
	}
	for a, n := range count {
		if n > 1 {
			return "I1-multiple-links", fmt.Sprintf("%s occurs %d times in link lists", nm(idOf(a)), n)
		}
	}
	// I2
	for _, p := range ags {
		for _, l := range p.Pivots.Links {
			if l.Pivots.Parent != p {
				pp := "none"
				if l.Pivots.Parent != nil {
					pp = nm(idOf(l.Pivots.Parent))
				}
				return "I2-link-without-parent", fmt.Sprintf("%s lists %s as link but %s's parent is %s", nm(idOf(p)), nm(idOf(l)), nm(idOf(l)), pp)
			}
		}
	}
	for _, x := range ags {
		if p := x.Pivots.Parent; p != nil {
			found := false
			for _, l := range p.Pivots.Links {
				if l == x {
					found = true
				}
			}
			if !found {
				return "I2-parent-without-link", fmt.Sprintf("%s's parent is %s but %s does not list it", nm(idOf(x)), nm(idOf(p)), nm(idOf(p)))
			}
		}
	}
	// I3
	for _, x := range ags {
		seen := map[*agent.Agent]bool{}
		for cur := x; cur != nil; cur = cur.Pivots.Parent {
			if seen[cur] {
				return "I3-cycle", fmt.Sprintf("%s is its own ancestor", nm(idOf(x)))
			}
			seen[cur] = true
		}
	}
	// I4
	var want []string
	for _, x := range ags {
		if p := x.Pivots.Parent; p != nil {
			want = append(want, fmt.Sprintf("%s>%s", nm(idOf(p)), nm(idOf(x))))
		}
	}
	sort.Strings(want)
	got, err := w.rawLinks()
	if err != nil {
		return "harness-db", err.Error()
	}
	if strings.Join(got, ",") != strings.Join(want, ",") {
		return "I4-db-links", fmt.Sprintf("TS_Links holds [%s] but the live links are [%s]", strings.Join(got, ","), strings.Join(want, ","))
	}
	// I6: right after an agent died it has no links, no parent, is inactive, and nobody
	// lists it (later events from an agent that keeps talking are not covered by I6)
	if last.kind == "exit" || last.kind == "killdate" || last.kind == "markdead" {
		id := last.p
		if x := w.ts.Agent(id); x != nil {
			if len(x.Pivots.Links) != 0 {
				return "I6-dead-has-links", fmt.Sprintf("%s died but still has %d links", nm(id), len(x.Pivots.Links))
			}
			if x.Pivots.Parent != nil {
				return "I6-dead-has-parent", fmt.Sprintf("%s died but still has parent %s", nm(id), nm(idOf(x.Pivots.Parent)))
			}
			if x.Active {
				return "I6-dead-active", fmt.Sprintf("%s died but is still active", nm(id))
			}
			for _, p := range ags {
				for _, l := range p.Pivots.Links {
					if l == x {
						return "I6-dead-still-linked", fmt.Sprintf("%s died but %s still lists it", nm(id), nm(idOf(p)))
					}
				}
			}
		}
	}
	return "", ""
}

// expectations of the last event (functional part: the event does what it says)
func (w *world) expect(e event, before map[uint32]uint32, ancBefore bool) (string, string) {
	switch e.kind {
	case "connect":
		x := w.ts.Agent(e.x)
		if e.x == e.p || ancBefore {
			return "", "" // must be refused or at least stay a forest: covered by I3
		}
		if x == nil {
			return "connect-not-registered", fmt.Sprintf("connect(%s,%s): %s is not a session afterwards", nm(e.p), nm(e.x), nm(e.x))
		}
		if x.Pivots.Parent == nil || idOf(x.Pivots.Parent) != e.p {
			return "connect-parent", fmt.Sprintf("connect(%s,%s): %s's parent is not %s afterwards", nm(e.p), nm(e.x), nm(e.x), nm(e.p))
		}
	case "disconnect":
		if before[e.x] == e.p && e.x != 0x99 {
			x := w.ts.Agent(e.x)
			if x != nil && x.Pivots.Parent != nil && idOf(x.Pivots.Parent) == e.p {
				return "I2-disconnect-keeps-parent", fmt.Sprintf("disconnect(%s,%s): %s still has parent %s", nm(e.p), nm(e.x), nm(e.x), nm(e.p))
			}
		}
	}
	return "", ""
}

func (w *world) key() string {
	var b strings.Builder
	ags := append([]*agent.Agent{}, w.ts.T.Agents.Agents...)
	sort.Slice(ags, func(i, j int) bool { return ags[i].NameID < ags[j].NameID })
	for _, a := range ags {
		p := "-"
		if a.Pivots.Parent != nil {
			p = nm(idOf(a.Pivots.Parent))
		}
		var ls []string
		for _, l := range a.Pivots.Links {
			if l != nil {
				ls = append(ls, nm(idOf(l)))
			}
		}
		fmt.Fprintf(&b, "%s:a=%v,p=%s,l=%s;", nm(idOf(a)), a.Active, p, strings.Join(ls, ""))
	}
	rows, _ := w.rawLinks()
	b.WriteString("db=" + strings.Join(rows, ","))
	if w.ts.T.DB != nil {
		var act []string
		for _, a := range w.ts.T.DB.AgentAll() {
			act = append(act, nm(idOf(a)))
		}
		sort.Strings(act)
		b.WriteString(";dbactive=" + strings.Join(act, ""))
	}
	return b.String()
}

func (w *world) parents() (map[uint32]uint32, bool) {
	m := map[uint32]uint32{}
	for _, a := range w.ts.T.Agents.Agents {
		if a.Pivots.Parent != nil {
			m[idOf(a)] = idOf(a.Pivots.Parent)
		}
	}
	return m, true
}

// idSets: the search runs once per assignment of agent ids.  The second one puts two
// agents above 0x7fffffff (one of them a direct agent, i.e. a parent), one exactly on
// 0x7fffffff: ids are unsigned 32-bit values on the wire and signed 64-bit integers in
// the database, and every layer in between has its own idea of their width.
var idSets = []struct {
	tag string
	ids []uint32
}{
	{"c09", []uint32{0xa1, 0xb2, 0xc3, 0xd4}},
	{"c09hi", []uint32{0x800000a1, 0xb2, 0xffffffc3, 0x7fffffff}},
}

func Run(r *ev.Run) {
	for _, set := range idSets {
		ids = set.ids
		names = map[uint32]string{ids[0]: "A", ids[1]: "B", ids[2]: "C", ids[3]: "D", 0x99: "?"}
		runIDs(r, set.tag)
	}
}

func runIDs(r *ev.Run, tag string) {
	alpha := alphabet()
	depth := 4
	dl := 70 * time.Second
	if r.Thorough() {
		depth = 12
		dl = 18 * time.Minute
	}
	r.Rule = "explicit-state BFS over pivot events (connect/disconnect/exit/kill-date callbacks relayed through the real parent chain, operator mark dead/alive) on 4 agents, once with small ids and once with ids on both sides of 0x80000000; state = history, de-duplicated by canonical (parent map, ordered link lists, active flags, raw TS_Links rows, active TS_Agents rows); every transition replayed on a fresh real teamserver + SQLite file; invariants I1-I6 and per-event expectations evaluated after every event; distinct = distinct canonical states + outcome classes"
	r.Bounds["agents"] = 4
	r.Bounds["max_depth"] = depth
	r.Bounds["alphabet_size"] = len(alpha)
	r.Assume("universe of 4 agents (2 direct, 2 introduced through SMB connect); events are delivered one at a time (C04/C11 cover concurrency)")
	step := func(hist []int) (string, []int, bool) {
		w := newWorld()
		defer w.ts.Close()
		var hn []string
		for i, oi := range hist {
			e := alpha[oi]
			hn = append(hn, e.String())
			before, _ := w.parents()
			anc := false
			if e.kind == "connect" {
				// is X an ancestor of P before the event?
				for cur, n := e.p, 0; n < 8; n++ {
					pp, ok := before[cur]
					if !ok {
						break
					}
					if pp == e.x {
						anc = true
					}
					cur = pp
				}
			}
			pn, frame := w.apply(e)
			last := i == len(hist)-1
			if pn != "" {
				if last {
					r.Violate("I5-panic/"+frame+"/"+ev.Normalize(pn), fmt.Sprintf("%s panics: %s", e, pn), map[string]any{"history": hn})
				}
				return "", nil, false
			}
			clause, what := w.invariants(e)
			if clause == "" {
				clause, what = w.expect(e, before, anc)
			}
			if clause != "" {
				if last {
					r.Violate(clause+"/after:"+e.kind, what, map[string]any{"history": hn})
				}
				return "", nil, false
			}
			if last {
				r.Outcome("ok/" + e.kind)
			}
		}
		r.Eval(1)
		k := w.key()
		r.Outcome(k)
		if r.WantSample() && len(hist) >= 3 {
			r.Sample(map[string]any{"history": hn, "state": k})
		}
		return k, w.enabled(), true
	}
	res := par.BFS(r, tag, depth, par.Workers(), time.Now().Add(dl), step)
	r.AddStates(res.States, res.Transitions, res.Transitions)
	r.Bounds["agent_ids/"+tag] = fmt.Sprintf("%08x", ids)
	r.Extra["bfs/"+tag] = map[string]any{"states": res.States, "transitions": res.Transitions, "depth_completed": res.Depth, "fixpoint": res.Fixpoint, "new_states_by_depth": res.ByDepth}
	r.Bounds["depth_completed/"+tag] = res.Depth
	if res.Capped {
		r.NotExhaustive(fmt.Sprintf("BFS (%s) stopped by the internal deadline after depth %d", tag, res.Depth))
	}
}
