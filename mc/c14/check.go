package c14

import (
	"encoding/json"
	"fmt"
	"os"
	"regexp"
	"sort"
	"strings"
	"unicode/utf8"

	"golang.org/x/text/unicode/norm"

	"Havoc/pkg/profile"
	hcl "Havoc/pkg/profile/yaotl"

	"verifmc/c14/profilegen"
	"verifmc/ev"
)

var _ = ev.Normalize

// Detail is the replay artefact of a violation: the file, what was expected and what
// the loader did.
type Detail struct {
	Part    string                  `json:"part"`
	Where   string                  `json:"where"`
	Variant string                  `json:"variant"`
	Source  string                  `json:"source"`
	Want    *profile.HavocConfig    `json:"want,omitempty"`
	Fault   *profilegen.FaultExpect `json:"fault,omitempty"`
	Str     *string                 `json:"string_value,omitempty"`
	Sp      string                  `json:"string_spelling,omitempty"`
	SpN     int                     `json:"string_spelling_id,omitempty"`
	Role    string                  `json:"string_role,omitempty"`
	Str2    *string                 `json:"string2_value,omitempty"`
	SpN2    int                     `json:"string2_spelling_id,omitempty"`
	Path2   string                  `json:"string2_field,omitempty"`
	Got     *profile.HavocConfig    `json:"got,omitempty"`
	Error   []DiagView              `json:"error,omitempty"`
	Diff    string                  `json:"difference,omitempty"`
}

type DiagView struct {
	Summary string `json:"summary"`
	Detail  string `json:"detail"`
	Subject string `json:"subject,omitempty"`
}

func (d *Detail) toCase() *profilegen.Case {
	c := &profilegen.Case{Part: d.Part, Where: d.Where, Variant: d.Variant, Src: []byte(d.Source), Want: d.Want, Fault: d.Fault}
	if d.Str != nil {
		c.HasStr, c.Str, c.Sp, c.Role = true, *d.Str, profilegen.Spelling(d.SpN), d.Role
	}
	if d.Str2 != nil {
		c.HasStr2, c.Str2, c.Sp2, c.Path2 = true, *d.Str2, profilegen.Spelling(d.SpN2), d.Path2
	}
	return c
}

type checker struct {
	col         *collector
	path        string
	job, idx    int
	evals       int64
	parts       map[string]int64
	outcomes    map[string]bool
	samples     []any
	wantSamples int
	sampleNext  bool
}

func newChecker(path string) *checker {
	return &checker{col: &collector{first: map[string]*finding{}}, path: path, parts: map[string]int64{}, outcomes: map[string]bool{}}
}

func (ck *checker) outcome(s string) { ck.outcomes[s] = true }

var reFileName = regexp.MustCompile(`/[^ :"]*\.yaotl`)

func normSummary(s string) string {
	return ev.Normalize(reFileName.ReplaceAllString(s, "FILE"))
}

func diagViews(d hcl.Diagnostics) []DiagView {
	var out []DiagView
	for _, x := range d {
		v := DiagView{Summary: x.Summary, Detail: reFileName.ReplaceAllString(x.Detail, "FILE")}
		if x.Subject != nil {
			v.Subject = fmt.Sprintf("%d,%d-%d,%d", x.Subject.Start.Line, x.Subject.Start.Column, x.Subject.End.Line, x.Subject.End.Column)
		}
		out = append(out, v)
	}
	sort.Slice(out, func(i, j int) bool {
		if out[i].Subject != out[j].Subject {
			return out[i].Subject < out[j].Subject
		}
		return out[i].Summary < out[j].Summary
	})
	return out
}

// summaries: the distinct summaries of a diagnostics list, sorted (the decoder walks Go
// maps, so the order of its diagnostics is not stable).
func summaries(d hcl.Diagnostics) string {
	set := map[string]bool{}
	for _, x := range d {
		set[normSummary(x.Summary)] = true
	}
	var l []string
	for s := range set {
		l = append(l, s)
	}
	sort.Strings(l)
	if len(l) > 2 {
		l = l[:2]
	}
	return strings.Join(l, "+")
}

// load runs the real loader on the case's file.
func (ck *checker) load(src []byte) (cfg *profile.HavocConfig, err error, panicked string) {
	if werr := os.WriteFile(ck.path, src, 0o600); werr != nil {
		fmt.Fprintln(os.Stderr, "c14: cannot write profile file:", werr)
		os.Exit(2)
	}
	p := profile.NewProfile()
	func() {
		defer func() {
			if x := recover(); x != nil {
				panicked = fmt.Sprint(x)
			}
		}()
		err = p.SetProfile(ck.path, false)
	}()
	return &p.Config, err, panicked
}

func (ck *checker) violate(c *profilegen.Case, sig, what string, got *profile.HavocConfig, err error, diff string) {
	d := &Detail{Part: c.Part, Where: c.Where, Variant: c.Variant, Source: string(c.Src), Fault: c.Fault, Diff: diff}
	if c.Want != nil {
		// the expected configuration may be shared between the cases of a job: copy it
		b, _ := json.Marshal(c.Want)
		d.Want = new(profile.HavocConfig)
		json.Unmarshal(b, d.Want)
	}
	if c.HasStr {
		s := c.Str
		d.Str, d.Sp, d.SpN, d.Role = &s, c.Sp.String(), int(c.Sp), c.Role
	}
	if c.HasStr2 {
		s := c.Str2
		d.Str2, d.SpN2, d.Path2 = &s, int(c.Sp2), c.Path2
	}
	if got != nil && c.Want != nil {
		d.Got = got
	}
	if diags, ok := err.(hcl.Diagnostics); ok {
		d.Error = diagViews(diags)
	} else if err != nil {
		d.Error = []DiagView{{Summary: "(not hcl.Diagnostics) " + err.Error()}}
	}
	ck.col.add(&finding{SrcLen: len(c.Src), Job: ck.job, Idx: ck.idx, Sig: sig, What: what, Detail: d, Count: 1})
}

// check is the oracle for one case.
func (ck *checker) check(c *profilegen.Case) {
	ck.idx++
	ck.evals++
	ck.parts[c.Part]++
	if ck.sampleNext && ck.idx == 2 {
		ck.sampleNext = false
		src := string(c.Src)
		if len(src) > 600 {
			src = src[:600] + "…"
		}
		ck.samples = append(ck.samples, map[string]any{"part": c.Part, "where": c.Where, "variant": c.Variant, "source": src})
	}
	cfg, err, panicked := ck.load(c.Src)
	if panicked != "" {
		ck.outcome("panic")
		ck.violate(c, "panic/"+ev.Normalize(panicked), "the profile loader panicked: "+panicked, nil, nil, "")
		return
	}
	if c.Fault != nil {
		ck.checkFault(c, cfg, err)
		return
	}
	// ---- oracle 1: a valid profile loads as exactly the configuration it denotes ----
	if err != nil {
		ck.outcome("valid-profile-rejected")
		diags, _ := err.(hcl.Diagnostics)
		sig := "roundtrip/rejected/" + summaries(diags)
		if c.HasStr {
			sig += "/" + stringShape(c)
		}
		ck.violate(c, sig, fmt.Sprintf("a valid profile (%s %s, %s) was rejected: %v", c.Part, c.Where, c.Variant, oneDiag(err)), nil, err, "")
		return
	}
	d := profilegen.Diff(c.Want, cfg)
	if d == nil {
		ck.outcome("loaded-as-written:" + c.Part)
		return
	}
	ck.outcome("loaded-differently")
	var sig string
	switch {
	case d.IsStr && norm.NFC.String(d.Want) == d.Got:
		sig = "roundtrip/string/nfc-normalised"
	case d.IsStr && c.HasStr2 && c.Str2 == d.Want && strings.HasSuffix(d.Path, "."+c.Path2):
		// the second string this case is about came back different
		c2 := *c
		c2.Str, c2.Sp, c2.StrToks = c.Str2, c.Sp2, nil
		sig = "roundtrip/string/" + stringDiffShape(&c2, d)
	case d.IsStr && c.HasStr && c.Str == d.Want:
		// the string this case is about came back different
		sig = "roundtrip/string/" + stringDiffShape(c, d)
	default:
		// some other part of the configuration differs: name the field
		sig = "roundtrip/config/" + rePathIndex.ReplaceAllString(d.Path, "[N]")
	}
	ck.violate(c, sig, fmt.Sprintf("profile (%s %s, %s) loaded without error but %s: %s", c.Part, c.Where, c.Variant, d.Path, d.Desc), cfg, nil, d.Path+": "+d.Desc)
}

var rePathIndex = regexp.MustCompile(`\[\d+\]`)

func oneDiag(err error) string {
	if diags, ok := err.(hcl.Diagnostics); ok {
		v := diagViews(diags)
		if len(v) > 0 {
			return fmt.Sprintf("%s at %s (%s)", v[0].Summary, v[0].Subject, v[0].Detail)
		}
	}
	return err.Error()
}

func tokName(t profilegen.Tok) string {
	switch t {
	case profilegen.TLit:
		return "literal"
	case profilegen.TNamed:
		return "named-escape"
	case profilegen.THex:
		return "hex-escape"
	case profilegen.TTmplEsc:
		return "doubled-marker"
	}
	return "?"
}

func charClass(r rune) string {
	switch {
	case r >= '0' && r <= '9', r >= 'a' && r <= 'f', r >= 'A' && r <= 'F':
		return "hexdigit"
	case r == '$' || r == '%':
		return "marker-char"
	case r == '{' || r == '}':
		return "brace"
	case r == '\n' || r == '\r':
		return "newline"
	case r == ' ' || r == '\t':
		return "blank"
	case r == '"' || r == '\\':
		return "quote-or-backslash"
	case r < 0x20 || r == 0x7f:
		return "control"
	case r >= 0x80:
		return "non-ascii"
	}
	return "other"
}

func toksOf(c *profilegen.Case) []profilegen.Tok {
	if c.StrToks != nil {
		return c.StrToks
	}
	switch c.Sp {
	case profilegen.SpHeredoc:
		if profilegen.HeredocOK(c.Str, false) {
			_, t := profilegen.SpellHeredoc(c.Str, false, "")
			return t
		}
	case profilegen.SpHeredocFlush:
		if profilegen.HeredocOK(c.Str, true) {
			_, t := profilegen.SpellHeredoc(c.Str, true, "  ")
			return t
		}
	case profilegen.SpBare:
		return nil
	}
	sp := c.Sp
	if sp >= profilegen.SpHeredoc {
		sp = profilegen.SpRaw
	}
	_, t := profilegen.SpellQuoted(c.Str, sp)
	return t
}

func spellingFamily(sp profilegen.Spelling) string {
	switch sp {
	case profilegen.SpHeredoc:
		return "heredoc"
	case profilegen.SpHeredocFlush:
		return "heredoc-flush"
	case profilegen.SpBare:
		return "bare"
	}
	return "quoted"
}

// stringDiffShape classifies a string mismatch by how the characters around the first
// difference were written: "<family>/<how the previous character was written>-then-
// <how this one was written>[:class of a literal]".
func stringDiffShape(c *profilegen.Case, d *profilegen.Difference) string {
	toks := toksOf(c)
	// index (in runes) of the first difference
	want, got := []rune(d.Want), []rune(d.Got)
	i := 0
	for i < len(want) && i < len(got) && want[i] == got[i] {
		i++
	}
	describe := func(k int) string {
		if k < 0 {
			return "start"
		}
		if k >= len(want) {
			return "end"
		}
		if k >= len(toks) {
			return "?"
		}
		n := tokName(toks[k])
		if toks[k] == profilegen.TLit {
			n += ":" + charClass(want[k])
		}
		return n
	}
	return spellingFamily(c.Sp) + "/" + describe(i-1) + "-then-" + describe(i)
}

// stringShape classifies a rejected string by the kinds of characters it contains
// (sorted set), so that one parser defect gives one signature.
func stringShape(c *profilegen.Case) string {
	set := map[string]bool{}
	for _, r := range c.Str {
		set[charClass(r)] = true
	}
	if !utf8.ValidString(c.Str) {
		set["invalid-utf8"] = true
	}
	var l []string
	for k := range set {
		l = append(l, k)
	}
	sort.Strings(l)
	return spellingFamily(c.Sp) + ":" + c.Sp.String() + "/" + strings.Join(l, ",")
}

// ---- oracle 2: a single fault is rejected with an error that names the problem and
// its place ----

func overlaps(a profilegen.Pos, from, to int) bool { return from <= a.To && to >= a.From }

func (ck *checker) checkFault(c *profilegen.Case, cfg *profile.HavocConfig, err error) {
	f := c.Fault
	base := "fault/" + f.Kind + "/" + f.Sub
	if err == nil {
		ck.outcome("fault-accepted")
		ck.violate(c, base+"/accepted", fmt.Sprintf("a profile with a single fault (%s %s: %s in a %s block) was loaded without any error", f.Kind, f.Sub, f.Name, f.Type), cfg, nil, "")
		return
	}
	diags, ok := err.(hcl.Diagnostics)
	if !ok || len(diags) == 0 {
		ck.outcome("fault-error-without-diagnostics")
		ck.violate(c, base+"/not-diagnostics", fmt.Sprintf("the error for a faulty profile is not a list of diagnostics: %T %v", err, err), nil, err, "")
		return
	}
	nLines := strings.Count(string(c.Src), "\n") + 1
	var good []string
	reasons := map[string]bool{}
	for _, d := range diags {
		if d.Severity != hcl.DiagError {
			continue
		}
		if strings.TrimSpace(d.Summary) == "" {
			reasons["empty summary"] = true
			continue
		}
		if d.Subject == nil {
			reasons["no subject range"] = true
			continue
		}
		s := d.Subject
		if s.Filename != ck.path {
			reasons["subject names another file"] = true
			continue
		}
		if s.Start.Line < 1 || s.End.Line < s.Start.Line || s.End.Line > nLines || s.Start.Byte < 0 || s.End.Byte > len(c.Src) || s.Start.Byte > s.End.Byte {
			reasons["subject range outside the file"] = true
			continue
		}
		onItem := false
		for _, it := range f.Items {
			if overlaps(it, s.Start.Line, s.End.Line) {
				onItem = true
			}
		}
		names := strings.Contains(d.Summary, f.Name) || strings.Contains(d.Detail, f.Name)
		switch {
		case len(f.Items) > 0 && onItem:
			// on the faulty item itself: its place says which setting it is
		case len(f.Items) == 0 && names && overlaps(f.Encl, s.Start.Line, s.End.Line):
			// nothing to point at (a missing setting): the enclosing block, and the name
		default:
			if len(f.Items) > 0 {
				reasons["no diagnostic on the lines of the fault"] = true
			} else {
				reasons["no diagnostic that names the missing setting inside its block"] = true
			}
			continue
		}
		good = append(good, normSummary(d.Summary))
	}
	if len(good) > 0 {
		sort.Strings(good) // the decoder's diagnostics come in map order
		ck.outcome("rejected:" + f.Kind + ":" + good[0])
		return
	}
	ck.outcome("fault-rejected-without-place")
	var rl []string
	for k := range reasons {
		rl = append(rl, k)
	}
	sort.Strings(rl)
	why := strings.Join(rl, "; ")
	ck.violate(c, base+"/unlocated:"+strings.ReplaceAll(why, " ", "-"), fmt.Sprintf("a faulty profile (%s %s: %s in a %s block) was rejected, but no diagnostic names the problem and its place: %s", f.Kind, f.Sub, f.Name, f.Type, why), nil, err, "")
}
