// Package c14: "A profile file means what it says".
//
// Every case is a profile file written by package profilegen (which also says what the
// file denotes, or which single fault it carries) and loaded with the real loader
// profile.NewProfile().SetProfile(path, false).  See notes/C14.md.
package c14

import (
	"encoding/json"
	"fmt"
	"io"
	"os"
	"os/exec"
	"path/filepath"
	"runtime"
	"runtime/debug"
	"sort"
	"strconv"
	"strings"
	"sync"
	"time"

	"Havoc/pkg/logger"

	"verifmc/c14/profilegen"
	"verifmc/ev"
)

// finding is one violation signature with the size and position (job, index in job) of
// the case that showed it, so that the replay artefact is the smallest and then first case
// in enumeration order, not in completion order.
type finding struct {
	SrcLen int     `json:"src_len"`
	Job    int     `json:"job"`
	Idx    int     `json:"idx"`
	Sig    string  `json:"sig"`
	What   string  `json:"what"`
	Detail *Detail `json:"detail"`
	Count  int     `json:"count"`
}

type collector struct {
	first map[string]*finding
}

// before: shorter file first (the artefact is the smallest counterexample), then
// enumeration order.
func (f *finding) before(o *finding) bool {
	if f.SrcLen != o.SrcLen {
		return f.SrcLen < o.SrcLen
	}
	if f.Job != o.Job {
		return f.Job < o.Job
	}
	return f.Idx < o.Idx
}

func (c *collector) add(f *finding) {
	old, ok := c.first[f.Sig]
	if !ok {
		c.first[f.Sig] = f
		return
	}
	n := old.Count + f.Count
	if f.before(old) {
		c.first[f.Sig] = f
		old = f
	}
	old.Count = n
}

// partial is what a worker process hands back.
type partial struct {
	Evals    int64            `json:"evals"`
	Parts    map[string]int64 `json:"parts"`
	Outcomes []string         `json:"outcomes"`
	Samples  []any            `json:"samples"`
	Findings []*finding       `json:"findings"`
	Skipped  int              `json:"skipped"`
	Notes    []string         `json:"notes"`
}

func tmpRoot() string {
	if d := os.Getenv("TMPDIR"); d != "" {
		return d
	}
	if st, err := os.Stat("/dev/shm"); err == nil && st.IsDir() {
		return "/dev/shm"
	}
	return os.TempDir()
}

func allJobs(g *profilegen.Gen, note func(string)) []profilegen.Job {
	jobs := g.Jobs()
	return append(jobs, shippedJobs(g, note)...)
}

func Run(r *ev.Run) {
	// The only global the loader touches is the logger (a mutex-protected log.Logger):
	// silence it.  The loader itself is re-entrant, but its allocation pattern scales
	// badly over goroutines (measured: 16 goroutines are slower than 8), so the
	// enumeration is spread over single-threaded worker processes instead.
	logger.SetStdOut(io.Discard)

	if w := os.Getenv("VERIF_WORKER"); w != "" && os.Getenv("VERIF_C14_OUT") != "" {
		worker(r, w)
		os.Exit(0)
	}

	dir, err := os.MkdirTemp(tmpRoot(), "c14-")
	if err != nil {
		fmt.Fprintln(os.Stderr, "c14: cannot create temp dir:", err)
		os.Exit(2)
	}
	defer os.RemoveAll(dir)

	if len(os.Args) >= 3 && os.Args[1] == "--replay" {
		replay(r, dir, os.Args[2])
		return
	}

	g := profilegen.NewGen(r.Thorough())
	jobs := allJobs(g, func(string) {}) // (worker 0 reports the notes)

	r.Rule = "bounded-exhaustive product over the profile schema read from config.go's struct tags: " +
		"(presence) per struct type every subset of its optional attributes and blocks; " +
		"(value) per attribute every value of its kind's domain x every spelling that can write it, with only-required and everything-present surroundings; " +
		"(pairs) every pair of domain strings in two neighbouring attributes x pairs of spellings; " +
		"(repeat) every count vector 0..n of the repeated blocks x orders/interleavings; " +
		"(order) per struct type every permutation (small bodies) or rotation/transposition/move of its items; " +
		"(layout) every layout style combination (indent, '=', blank lines, 6 comment modes, list/map layout, bare labels, final newline, one-line blocks) x base documents; " +
		"(strings) every string over the alphabet up to the length bound x every spelling x 5 roles (attribute, list element, map value, map key, label); " +
		"(shipped) the repository's example profiles as they are and with a comment/blank line inserted at every line boundary; " +
		"(fault) every single fault (omit required, repeat single block, unknown attribute/block, value of each wrong kind, label count) at every place of 6 base profiles"
	r.Bounds["struct_types"] = len(g.S.Types)
	r.Bounds["string_domain"] = len(profilegen.StringDomain)
	r.Bounds["int_domain"] = len(profilegen.IntDomain(r.Thorough()))
	r.Bounds["alphabet"] = g.AlphabetInUse()
	r.Bounds["string_length_per_role"] = g.StringBounds()
	r.Bounds["spellings"] = []string{"raw", "named", "hex-nonascii", "hex-all", "hex-marker", "heredoc", "heredoc-flush", "bare (labels, keys)", "number-as-string"}
	r.Bounds["jobs"] = len(jobs)
	r.Bounds["size_offsets_of_a_block_start"] = profilegen.SizeOffsets
	r.Bounds["size_lists"] = []int{2000, 20000}
	if r.Thorough() {
		r.Bounds["layout_styles"] = len(profilegen.Styles(-1))
	} else {
		r.Bounds["layout_styles"] = len(profilegen.Styles(2))
	}
	r.Assume(
		"string values are valid UTF-8 (the property quantifies over Unicode strings); byte strings that are not UTF-8 are out of scope",
		"only the spellings the statement lists are demanded: no \\u/\\U escapes, no CRLF line ends, no bools or strings written as other kinds",
		"wrong kinds demanded to be rejected: string<->list<->map<->block, non-numeric/fractional for int, number or non-bool string for bool, label count; conversions the dialect defines (number or bool written for a string) are not faults",
		"the profile schema is read from the struct tags of profile.HavocConfig by the generator's own tag reader",
	)

	budget := 65 * time.Second
	if r.Thorough() {
		budget = 17 * time.Minute
	}
	deadline := time.Now().Add(budget)

	nw := runtime.NumCPU()
	if nw > 32 {
		nw = 32
	}
	if nw > len(jobs) {
		nw = len(jobs)
	}
	self := os.Getenv("VERIF_BIN")
	if self == "" {
		self, _ = os.Executable()
	}
	var wg sync.WaitGroup
	outs := make([]string, nw)
	errs := make([]error, nw)
	for w := 0; w < nw; w++ {
		outs[w] = filepath.Join(dir, fmt.Sprintf("part%02d.json", w))
		wg.Add(1)
		go func(w int) {
			defer wg.Done()
			cmd := exec.Command(self)
			cmd.Env = append(os.Environ(),
				fmt.Sprintf("VERIF_WORKER=%d/%d", w, nw),
				"VERIF_C14_OUT="+outs[w],
				"VERIF_C14_DIR="+dir,
				"VERIF_C14_DEADLINE="+strconv.FormatInt(deadline.UnixNano(), 10),
				"GOMAXPROCS=2")
			cmd.Stderr = os.Stderr
			errs[w] = cmd.Run()
		}(w)
	}
	wg.Wait()

	col := &collector{first: map[string]*finding{}}
	parts := map[string]int64{}
	skipped := 0
	for w := 0; w < nw; w++ {
		if errs[w] != nil {
			fmt.Fprintf(os.Stderr, "c14: worker %d failed: %v\n", w, errs[w])
			os.Exit(2)
		}
		b, err := os.ReadFile(outs[w])
		var p partial
		if err != nil || json.Unmarshal(b, &p) != nil {
			fmt.Fprintf(os.Stderr, "c14: worker %d left no result\n", w)
			os.Exit(2)
		}
		r.Eval(int(p.Evals))
		for k, v := range p.Parts {
			parts[k] += v
		}
		for _, o := range p.Outcomes {
			r.Outcome(o)
		}
		if w == 0 {
			for _, s := range p.Samples {
				r.Sample(s)
			}
			for _, n := range p.Notes {
				r.Note("%s", n)
			}
		}
		for _, f := range p.Findings {
			col.add(f)
		}
		skipped += p.Skipped
	}
	if skipped > 0 {
		r.NotExhaustive(fmt.Sprintf("internal deadline of %s reached: %d of %d jobs were not run", budget, skipped, len(jobs)))
	}
	r.Extra["cases_per_part"] = parts
	r.Extra["worker_processes"] = nw
	report(r, col)
}

// worker runs the jobs j with j mod n == i and writes its partial result.
func worker(r *ev.Run, spec string) {
	var i, n int
	if _, err := fmt.Sscanf(spec, "%d/%d", &i, &n); err != nil || n <= 0 {
		fmt.Fprintln(os.Stderr, "c14: bad VERIF_WORKER")
		os.Exit(2)
	}
	debug.SetGCPercent(400)
	dl, _ := strconv.ParseInt(os.Getenv("VERIF_C14_DEADLINE"), 10, 64)
	deadline := time.Unix(0, dl)
	g := profilegen.NewGen(r.Thorough())
	var notes []string
	jobs := allJobs(g, func(s string) { notes = append(notes, s) })
	ck := newChecker(filepath.Join(os.Getenv("VERIF_C14_DIR"), fmt.Sprintf("w%02d.yaotl", i)))
	ck.wantSamples = 0
	if i == 0 {
		ck.wantSamples = 6
	}
	skipped := 0
	for j := i; j < len(jobs); j += n {
		if dl != 0 && time.Now().After(deadline) {
			skipped++
			continue
		}
		ck.job, ck.idx = j, 0
		ck.sampleNext = strings.Count(jobs[j].Name, "/") > 0 && len(ck.samples) < ck.wantSamples
		jobs[j].Run(ck.check)
	}
	p := partial{Evals: ck.evals, Parts: ck.parts, Samples: ck.samples, Skipped: skipped, Notes: notes}
	for o := range ck.outcomes {
		p.Outcomes = append(p.Outcomes, o)
	}
	sort.Strings(p.Outcomes)
	for _, f := range ck.col.first {
		p.Findings = append(p.Findings, f)
	}
	sort.Slice(p.Findings, func(a, b int) bool { return p.Findings[a].Sig < p.Findings[b].Sig })
	b, err := json.Marshal(p)
	if err == nil {
		err = os.WriteFile(os.Getenv("VERIF_C14_OUT"), b, 0o600)
	}
	if err != nil {
		fmt.Fprintln(os.Stderr, "c14: worker cannot write result:", err)
		os.Exit(2)
	}
}

func report(r *ev.Run, col *collector) {
	sigs := make([]string, 0, len(col.first))
	for s := range col.first {
		sigs = append(sigs, s)
	}
	sort.Strings(sigs)
	for _, s := range sigs {
		f := col.first[s]
		r.Violate(f.Sig, f.What, f.Detail)
		for i := 1; i < f.Count; i++ {
			r.Violate(f.Sig, f.What, nil)
		}
	}
}

// replay re-runs the single case recorded in a replay file.
func replay(r *ev.Run, dir, file string) {
	b, err := os.ReadFile(file)
	if err != nil {
		fmt.Fprintln(os.Stderr, "c14: cannot read replay file:", err)
		os.Exit(2)
	}
	var rf struct {
		Detail json.RawMessage `json:"detail"`
	}
	var d Detail
	if err := json.Unmarshal(b, &rf); err != nil || json.Unmarshal(rf.Detail, &d) != nil || d.Source == "" && d.Want == nil && d.Fault == nil {
		fmt.Fprintln(os.Stderr, "c14: replay file is not a C14 artefact")
		os.Exit(2)
	}
	ck := newChecker(filepath.Join(dir, "replay.yaotl"))
	ck.check(d.toCase())
	r.Eval(1)
	for o := range ck.outcomes {
		r.Outcome(o)
	}
	r.Rule = "replay of one recorded case"
	r.NotExhaustive("replay of a single case")
	r.Outcome("replayed")
	r.Sample(map[string]any{"replayed": file, "source": d.Source})
	report(r, ck.col)
}
