package c14

import (
	"crypto/sha256"
	"encoding/hex"
	"fmt"
	"os"
	"path/filepath"
	"sort"
	"strings"

	"Havoc/pkg/profile"

	"verifmc/c14/profilegen"
)

func repoRoot() string {
	if r := os.Getenv("VERIF_REPO_ROOT"); r != "" {
		return r
	}
	if r := os.Getenv("VERIF_REPO"); r != "" {
		return r
	}
	return "/repo"
}

// shippedJobs: the example profiles of the repository, as they are and with one comment
// or blank line inserted at every line boundary (and appended to every line).  What a
// shipped file denotes is its hand transcription in profilegen (bases.go); a file whose
// content is no longer the transcribed one is only checked metamorphically (every
// variant must load as the same configuration as the file itself).
func shippedJobs(g *profilegen.Gen, note func(string)) []profilegen.Job {
	var jobs []profilegen.Job
	shipped := profilegen.Shipped()
	names := make([]string, 0, len(shipped))
	for n := range shipped {
		names = append(names, n)
	}
	sort.Strings(names)
	for _, name := range names {
		name := name
		doc := shipped[name]
		path := filepath.Join(repoRoot(), "profiles", name)
		src, err := os.ReadFile(path)
		if err != nil {
			note(fmt.Sprintf("shipped profile %s not readable (%v): skipped", name, err))
			continue
		}
		sum := sha256.Sum256(src)
		transcribed := hex.EncodeToString(sum[:]) == profilegen.ShippedSHA256[name]
		if !transcribed {
			note(fmt.Sprintf("shipped profile %s differs from the transcribed version: only metamorphic checks", name))
		}
		jobs = append(jobs, profilegen.Job{Name: "shipped/" + name, Run: func(emit func(*profilegen.Case)) {
			var want *profile.HavocConfig
			if transcribed {
				w, err := g.S.Expected(doc)
				if err != nil {
					panic("c14: transcription of " + name + " is not a valid document: " + err.Error())
				}
				want = w
			} else {
				// metamorphic reference: what the loader makes of the pristine file
				tmp := filepath.Join(tmpRoot(), fmt.Sprintf("c14-ref-%d-%s", os.Getpid(), name))
				os.WriteFile(tmp, src, 0o600)
				defer os.Remove(tmp)
				p := profile.NewProfile()
				if err := p.SetProfile(tmp, false); err != nil {
					return // cannot say what the file means
				}
				want = &p.Config
			}
			emit(&profilegen.Case{Part: "shipped", Where: name, Src: src, Want: want, Variant: "as shipped"})
			text := string(src)
			if strings.Contains(text, "<<") || strings.Contains(text, "/*") {
				return // line-based insertion is only safe without heredocs and block comments
			}
			lines := strings.SplitAfter(text, "\n")
			inserts := []struct{ name, text string }{
				{"blank line", "\n"},
				{"# comment line", "  # Name = \"x\" {\n"},
				{"// comment line", "// } \"\n"},
				{"/* */ comment line", "/* Name = 1 */\n"},
				{"multi-line comment", "/* {\n  \" */\n"},
			}
			for at := 0; at <= len(lines); at++ {
				for _, ins := range inserts {
					if at == len(lines) && !strings.HasSuffix(text, "\n") {
						continue
					}
					v := strings.Join(lines[:at], "") + ins.text + strings.Join(lines[at:], "")
					emit(&profilegen.Case{Part: "shipped", Where: name, Src: []byte(v), Want: want,
						Variant: fmt.Sprintf("%s inserted before line %d", ins.name, at+1)})
				}
			}
			// a trailing comment on every line
			for at, l := range lines {
				if !strings.HasSuffix(l, "\n") {
					continue
				}
				for _, tr := range []string{" # trailing \"", " // trailing {", " /* trailing */"} {
					nl := strings.TrimSuffix(l, "\n") + tr + "\n"
					v := strings.Join(lines[:at], "") + nl + strings.Join(lines[at+1:], "")
					emit(&profilegen.Case{Part: "shipped", Where: name, Src: []byte(v), Want: want,
						Variant: fmt.Sprintf("%q appended to line %d", tr, at+1)})
				}
			}
		}})
	}
	return jobs
}
