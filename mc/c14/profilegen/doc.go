package profilegen

import (
	"fmt"
	"reflect"

	"Havoc/pkg/profile"
)

// ---- document model: what a profile says, independent of how it is spelled ----

type VKind int

const (
	VStr VKind = iota
	VInt
	VBool
	VList
	VMap
	VRaw // literal source text (fault injection only)
)

// Spelling selects how a string (or number) is written.  See spell.go.
type Spelling int

type KV struct {
	K   string
	KSp Spelling // spelling of the key (SpBare = identifier when possible)
	V   Value
}

type Value struct {
	Kind VKind
	S    string
	I    int64
	B    bool
	L    []Value
	M    []KV
	Raw  string
	Sp   Spelling // string spelling, or for VInt: SpNumStr = quoted decimal
	Num  NumForm  // VInt: which of the equivalent decimal spellings is written
}

// NumForm: the spellings of one decimal number the language reads alike.
type NumForm int

const (
	NumPlain NumForm = iota // 40056
	NumZeros                // 040056 (leading zeros do not make it octal)
	NumPoint                // 40056.0
	NumExp                  // 40056e0
	NumExpUp                // 4005.6E1 (not for numbers ending in 0.. - see spellInt)
	nNumForms
)

var numFormNames = [...]string{"plain", "leading-zeros", "point-zero", "exponent-zero", "shifted-exponent"}

func (f NumForm) String() string { return numFormNames[f] }

// NumForms lists every form.
func NumForms() []NumForm { return []NumForm{NumPlain, NumZeros, NumPoint, NumExp, NumExpUp} }

func IntForm(i int64, f NumForm, quoted bool) Value {
	v := Value{Kind: VInt, I: i, Num: f}
	if quoted {
		v.Sp = SpNumStr
	}
	return v
}

func Str(s string) Value                { return Value{Kind: VStr, S: s} }
func StrSp(s string, sp Spelling) Value { return Value{Kind: VStr, S: s, Sp: sp} }
func Int(i int64) Value                 { return Value{Kind: VInt, I: i} }
func IntStr(i int64) Value              { return Value{Kind: VInt, I: i, Sp: SpNumStr} }
func Bool(b bool) Value                 { return Value{Kind: VBool, B: b} }
func Raw(src string) Value              { return Value{Kind: VRaw, Raw: src} }
func List(ss ...string) Value {
	v := Value{Kind: VList, L: []Value{}}
	for _, s := range ss {
		v.L = append(v.L, Str(s))
	}
	return v
}
func Map(kvs ...string) Value {
	v := Value{Kind: VMap, M: []KV{}}
	for i := 0; i+1 < len(kvs); i += 2 {
		v.M = append(v.M, KV{K: kvs[i], V: Str(kvs[i+1])})
	}
	return v
}

type Attr struct {
	Name string
	V    Value
}

type Label struct {
	S   string
	Sp  Spelling
	Raw string // when non-empty: literal source text for the label (fault injection)
}

type Block struct {
	Type   string
	Labels []Label
	Body   *Body
}

type Item struct {
	A *Attr
	B *Block
}

type Body struct {
	Items []Item
}

func (b *Body) AddAttr(name string, v Value) *Body {
	b.Items = append(b.Items, Item{A: &Attr{Name: name, V: v}})
	return b
}

func (b *Body) AddBlock(typ string, body *Body, labels ...string) *Block {
	blk := &Block{Type: typ, Body: body}
	for _, l := range labels {
		blk.Labels = append(blk.Labels, Label{S: l})
	}
	b.Items = append(b.Items, Item{B: blk})
	return blk
}

func (b *Body) FindAttr(name string) *Attr {
	for _, it := range b.Items {
		if it.A != nil && it.A.Name == name {
			return it.A
		}
	}
	return nil
}

func (b *Body) FindBlocks(typ string) []*Block {
	var out []*Block
	for _, it := range b.Items {
		if it.B != nil && it.B.Type == typ {
			out = append(out, it.B)
		}
	}
	return out
}

// Clone makes a deep copy and returns a mapping old body -> new body so that callers
// can locate the counterpart of a node they selected in the original.
func (b *Body) Clone() *Body {
	nb := &Body{Items: make([]Item, len(b.Items))}
	for i, it := range b.Items {
		if it.A != nil {
			a := *it.A
			a.V = cloneValue(a.V)
			nb.Items[i].A = &a
		} else {
			blk := *it.B
			blk.Labels = append([]Label(nil), blk.Labels...)
			blk.Body = it.B.Body.Clone()
			nb.Items[i].B = &blk
		}
	}
	return nb
}

func cloneValue(v Value) Value {
	if v.L != nil {
		l := make([]Value, len(v.L))
		for i := range v.L {
			l[i] = cloneValue(v.L[i])
		}
		v.L = l
	}
	if v.M != nil {
		m := make([]KV, len(v.M))
		for i := range v.M {
			m[i] = v.M[i]
			m[i].V = cloneValue(v.M[i].V)
		}
		v.M = m
	}
	return v
}

// ---- the naive reference decoder: document -> expected configuration ----

// Expected builds the HavocConfig that a valid document denotes.  It is written
// directly from the struct tags: an attribute sets the field of the same name, a block
// fills the pointer (single) or appends to the slice (repeated, in file order), a label
// sets the label field, everything not mentioned stays at its zero value.  It returns an
// error when the document is not a valid profile (used as a generator self-check).
func (s *Schema) Expected(doc *Body) (*profile.HavocConfig, error) {
	cfg := new(profile.HavocConfig)
	if err := s.fill(reflect.ValueOf(cfg).Elem(), s.Root, doc); err != nil {
		return nil, err
	}
	return cfg, nil
}

func (s *Schema) fill(dst reflect.Value, ti *TypeInfo, body *Body) error {
	seenAttr := map[string]bool{}
	for _, it := range body.Items {
		if it.A != nil {
			ai := ti.Attr(it.A.Name)
			if ai == nil {
				return fmt.Errorf("%s: unknown attribute %q", ti.Name, it.A.Name)
			}
			if seenAttr[ai.Name] {
				return fmt.Errorf("%s: attribute %q repeated", ti.Name, ai.Name)
			}
			seenAttr[ai.Name] = true
			f := dst.Field(ai.Field)
			v := it.A.V
			switch ai.Kind {
			case KString:
				if v.Kind != VStr {
					return fmt.Errorf("%s.%s: want string", ti.Name, ai.Name)
				}
				f.SetString(v.S)
			case KInt:
				if v.Kind != VInt {
					return fmt.Errorf("%s.%s: want int", ti.Name, ai.Name)
				}
				f.SetInt(v.I)
			case KBool:
				if v.Kind != VBool {
					return fmt.Errorf("%s.%s: want bool", ti.Name, ai.Name)
				}
				f.SetBool(v.B)
			case KList:
				if v.Kind != VList {
					return fmt.Errorf("%s.%s: want list", ti.Name, ai.Name)
				}
				out := make([]string, 0, len(v.L))
				for _, e := range v.L {
					if e.Kind != VStr {
						return fmt.Errorf("%s.%s: want list of strings", ti.Name, ai.Name)
					}
					out = append(out, e.S)
				}
				f.Set(reflect.ValueOf(out))
			case KMap:
				if v.Kind != VMap {
					return fmt.Errorf("%s.%s: want map", ti.Name, ai.Name)
				}
				out := map[string]string{}
				for _, kv := range v.M {
					if kv.V.Kind != VStr {
						return fmt.Errorf("%s.%s: want map of strings", ti.Name, ai.Name)
					}
					if _, dup := out[kv.K]; dup {
						return fmt.Errorf("%s.%s: duplicate key", ti.Name, ai.Name)
					}
					out[kv.K] = kv.V.S
				}
				f.Set(reflect.ValueOf(out))
			}
			continue
		}
		blk := it.B
		bi := ti.Block(blk.Type)
		if bi == nil {
			return fmt.Errorf("%s: unknown block %q", ti.Name, blk.Type)
		}
		if len(blk.Labels) != len(bi.Type.Labels) {
			return fmt.Errorf("%s.%s: wrong number of labels", ti.Name, bi.Name)
		}
		elem := reflect.New(bi.Type.GoType).Elem()
		if err := s.fill(elem, bi.Type, blk.Body); err != nil {
			return err
		}
		for i, l := range blk.Labels {
			elem.Field(bi.Type.Labels[i].Field).SetString(l.S)
		}
		f := dst.Field(bi.Field)
		switch {
		case bi.Multi && bi.Ptr:
			p := reflect.New(bi.Type.GoType)
			p.Elem().Set(elem)
			f.Set(reflect.Append(f, p))
		case bi.Multi:
			f.Set(reflect.Append(f, elem))
		default:
			if !f.IsNil() {
				return fmt.Errorf("%s: single block %q repeated", ti.Name, bi.Name)
			}
			p := reflect.New(bi.Type.GoType)
			p.Elem().Set(elem)
			f.Set(p)
		}
	}
	for _, ai := range ti.Attrs {
		if !ai.Optional && !seenAttr[ai.Name] {
			return fmt.Errorf("%s: required attribute %q missing", ti.Name, ai.Name)
		}
	}
	return nil
}

// Difference is the first difference between two configurations.
type Difference struct {
	Path  string // "Listener.ListenerHTTP[0].Hosts[1]"
	Desc  string
	IsStr bool // the differing leaf is a string (attribute, list element, map key or value, label)
	Want  string
	Got   string
	IsKey bool // the string is a map key
}

// Diff compares two configurations with nil and empty slices/maps identified and
// returns nil when they are equal, else the first difference in declaration order.
func Diff(want, got *profile.HavocConfig) *Difference {
	return diffValue(reflect.ValueOf(want).Elem(), reflect.ValueOf(got).Elem(), "")
}

func diffValue(a, b reflect.Value, path string) *Difference {
	switch a.Kind() {
	case reflect.Ptr:
		if a.IsNil() != b.IsNil() {
			return &Difference{Path: path, Desc: fmt.Sprintf("block presence: want present=%v got present=%v", !a.IsNil(), !b.IsNil())}
		}
		if a.IsNil() {
			return nil
		}
		return diffValue(a.Elem(), b.Elem(), path)
	case reflect.Struct:
		for i := 0; i < a.NumField(); i++ {
			p := a.Type().Field(i).Name
			if path != "" {
				p = path + "." + p
			}
			if d := diffValue(a.Field(i), b.Field(i), p); d != nil {
				return d
			}
		}
		return nil
	case reflect.Slice:
		if a.Len() != b.Len() {
			return &Difference{Path: path, Desc: fmt.Sprintf("length: want %d got %d", a.Len(), b.Len())}
		}
		for i := 0; i < a.Len(); i++ {
			if d := diffValue(a.Index(i), b.Index(i), fmt.Sprintf("%s[%d]", path, i)); d != nil {
				return d
			}
		}
		return nil
	case reflect.Map:
		if a.Len() != b.Len() {
			return &Difference{Path: path, Desc: fmt.Sprintf("map size: want %d got %d", a.Len(), b.Len())}
		}
		ks := make([]string, 0, a.Len())
		for _, k := range a.MapKeys() {
			ks = append(ks, k.String())
		}
		sortStrings(ks)
		for _, k := range ks {
			bv := b.MapIndex(reflect.ValueOf(k))
			if !bv.IsValid() {
				// the smallest key of b that a does not have is what was read instead
				var extra []string
				for _, bk := range b.MapKeys() {
					if !a.MapIndex(bk).IsValid() {
						extra = append(extra, bk.String())
					}
				}
				sortStrings(extra)
				got := ""
				if len(extra) > 0 {
					got = extra[0]
				}
				return &Difference{Path: path + "{key}", Desc: fmt.Sprintf("map key: want %q got %q", k, got), IsStr: true, IsKey: true, Want: k, Got: got}
			}
			av := a.MapIndex(reflect.ValueOf(k))
			if av.String() != bv.String() {
				return &Difference{Path: path + "{value}", Desc: fmt.Sprintf("map value of %q: want %q got %q", k, av.String(), bv.String()), IsStr: true, Want: av.String(), Got: bv.String()}
			}
		}
		return nil
	case reflect.String:
		if a.String() != b.String() {
			return &Difference{Path: path, Desc: fmt.Sprintf("want %q got %q", a.String(), b.String()), IsStr: true, Want: a.String(), Got: b.String()}
		}
	case reflect.Int:
		if a.Int() != b.Int() {
			return &Difference{Path: path, Desc: fmt.Sprintf("want %d got %d", a.Int(), b.Int())}
		}
	case reflect.Bool:
		if a.Bool() != b.Bool() {
			return &Difference{Path: path, Desc: fmt.Sprintf("want %v got %v", a.Bool(), b.Bool())}
		}
	default:
		panic("profilegen.Diff: unsupported kind " + a.Kind().String())
	}
	return nil
}

func sortStrings(s []string) {
	for i := 1; i < len(s); i++ {
		for j := i; j > 0 && s[j] < s[j-1]; j-- {
			s[j], s[j-1] = s[j-1], s[j]
		}
	}
}
