package profilegen

import (
	"fmt"
	"os"
	"strings"
	"testing"
)

// TestDump prints a few generated cases per part (go test -run Dump -v) for eyeballing.
func TestDump(t *testing.T) {
	if os.Getenv("C14_DUMP") == "" {
		t.Skip("set C14_DUMP=<part-prefix> to print generated cases")
	}
	g := NewGen(false)
	per := map[string]int{}
	for _, j := range g.Jobs() {
		if !strings.HasPrefix(j.Name, os.Getenv("C14_DUMP")) {
			continue
		}
		n := 0
		j.Run(func(c *Case) {
			n++
			if per[j.Name] < 4 && (n%211 == 0) {
				per[j.Name]++
				fmt.Printf("---- %s #%d [%s] %s\n%s\n", j.Name, n, c.Variant, fmtFault(c.Fault), c.Src)
			}
		})
	}
}

func fmtFault(f *FaultExpect) string {
	if f == nil {
		return ""
	}
	return fmt.Sprintf("FAULT %s/%s %s.%s items=%v encl=%v", f.Kind, f.Sub, f.Type, f.Name, f.Items, f.Encl)
}

// TestBasesValid: every base document is a valid profile by the reference decoder, and
// the printer's line bookkeeping matches the text.
func TestBasesValid(t *testing.T) {
	g := NewGen(false)
	for _, b := range g.Bases() {
		if _, err := g.S.Expected(b.Doc); err != nil {
			t.Errorf("base %s invalid: %v", b.Name, err)
		}
		for _, st := range Styles(1) {
			pr := Print(b.Doc, st.St)
			lines := strings.Split(string(pr.Src), "\n")
			for blk, ln := range pr.Head {
				if !strings.Contains(lines[ln-1], blk.Type) {
					t.Fatalf("base %s style %s: header of %s not on line %d: %q", b.Name, st.Name, blk.Type, ln, lines[ln-1])
				}
				end := pr.Block[blk].To
				if !strings.Contains(lines[end-1], "}") {
					t.Fatalf("base %s style %s: close of %s not on line %d: %q", b.Name, st.Name, blk.Type, end, lines[end-1])
				}
			}
			for a, pos := range pr.Attr {
				if !strings.Contains(lines[pos.From-1], a.Name) {
					t.Fatalf("base %s style %s: attribute %s not on line %d: %q", b.Name, st.Name, a.Name, pos.From, lines[pos.From-1])
				}
			}
		}
	}
}
