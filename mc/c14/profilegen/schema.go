// Package profilegen is the generator side of check C14: an independent description
// of the profile schema (read from the struct tags of profile.HavocConfig with its own
// tag reader), a document model of "what a profile says", a printer that writes a
// document in any of the spellings the property statement lists, the naive reference
// decoder (document -> expected HavocConfig) and the single-fault mutator.
//
// Nothing in here calls into Havoc/pkg/profile/yaotl: the code under test is only
// ever reached through profile.SetProfile in package c14.
package profilegen

import (
	"fmt"
	"reflect"
	"sort"
	"strings"

	"Havoc/pkg/profile"
)

// AttrKind is the Go kind an attribute decodes into.
type AttrKind int

const (
	KString AttrKind = iota
	KInt
	KBool
	KList // []string
	KMap  // map[string]string
)

func (k AttrKind) String() string {
	return [...]string{"string", "int", "bool", "list", "map"}[k]
}

type AttrInfo struct {
	Name     string // name in the file
	Field    int    // struct field index
	GoName   string
	Kind     AttrKind
	Optional bool
}

type BlockInfo struct {
	Name   string
	Field  int
	GoName string
	Multi  bool // slice of blocks (0..n); else a single optional (pointer) block
	Ptr    bool // element is *T
	Type   *TypeInfo
}

type LabelInfo struct {
	Name  string
	Field int
}

// TypeInfo describes one struct type of config.go, in declaration order of its fields.
type TypeInfo struct {
	Name   string
	GoType reflect.Type
	Attrs  []AttrInfo
	Blocks []BlockInfo
	Labels []LabelInfo
}

func (t *TypeInfo) Attr(name string) *AttrInfo {
	for i := range t.Attrs {
		if t.Attrs[i].Name == name {
			return &t.Attrs[i]
		}
	}
	return nil
}

func (t *TypeInfo) Block(name string) *BlockInfo {
	for i := range t.Blocks {
		if t.Blocks[i].Name == name {
			return &t.Blocks[i]
		}
	}
	return nil
}

// Schema is the whole tree below HavocConfig.
type Schema struct {
	Root  *TypeInfo
	Types []*TypeInfo // every struct type reachable from Root, sorted by name
	// Path[t.Name] = chain of block names leading from Root to the first place t occurs.
	Path map[string][]string
}

// Load reads the schema from the struct tags of profile.HavocConfig.  It panics on a
// tag shape this generator does not understand (a harness error: config.go changed in a
// way the generator must learn about).
func Load() *Schema {
	s := &Schema{Path: map[string][]string{}}
	seen := map[reflect.Type]*TypeInfo{}
	var walk func(t reflect.Type, path []string) *TypeInfo
	walk = func(t reflect.Type, path []string) *TypeInfo {
		if ti, ok := seen[t]; ok {
			return ti
		}
		ti := &TypeInfo{Name: t.Name(), GoType: t}
		seen[t] = ti
		s.Types = append(s.Types, ti)
		s.Path[ti.Name] = append([]string(nil), path...)
		for i := 0; i < t.NumField(); i++ {
			f := t.Field(i)
			tag := f.Tag.Get("yaotl")
			if tag == "" {
				continue
			}
			name, kind := tag, "attr"
			if c := strings.IndexByte(tag, ','); c >= 0 {
				name, kind = tag[:c], tag[c+1:]
			}
			switch kind {
			case "attr", "optional":
				ai := AttrInfo{Name: name, Field: i, GoName: f.Name, Optional: kind == "optional"}
				switch {
				case f.Type.Kind() == reflect.String:
					ai.Kind = KString
				case f.Type.Kind() == reflect.Int:
					ai.Kind = KInt
				case f.Type.Kind() == reflect.Bool:
					ai.Kind = KBool
				case f.Type.Kind() == reflect.Slice && f.Type.Elem().Kind() == reflect.String:
					ai.Kind = KList
				case f.Type.Kind() == reflect.Map && f.Type.Key().Kind() == reflect.String && f.Type.Elem().Kind() == reflect.String:
					ai.Kind = KMap
				default:
					panic(fmt.Sprintf("profilegen: attribute %s.%s has unsupported type %s", t.Name(), f.Name, f.Type))
				}
				ti.Attrs = append(ti.Attrs, ai)
			case "label":
				if f.Type.Kind() != reflect.String {
					panic(fmt.Sprintf("profilegen: label %s.%s is not a string", t.Name(), f.Name))
				}
				ti.Labels = append(ti.Labels, LabelInfo{Name: name, Field: i})
			case "block":
				bi := BlockInfo{Name: name, Field: i, GoName: f.Name}
				ft := f.Type
				if ft.Kind() == reflect.Slice {
					bi.Multi = true
					ft = ft.Elem()
				}
				if ft.Kind() == reflect.Ptr {
					bi.Ptr = true
					ft = ft.Elem()
				}
				if ft.Kind() != reflect.Struct {
					panic(fmt.Sprintf("profilegen: block %s.%s is not a struct", t.Name(), f.Name))
				}
				if !bi.Multi && !bi.Ptr {
					panic(fmt.Sprintf("profilegen: required (non-pointer) single block %s.%s is not supported", t.Name(), f.Name))
				}
				bi.Type = walk(ft, append(append([]string(nil), path...), name))
				ti.Blocks = append(ti.Blocks, bi)
			default:
				panic(fmt.Sprintf("profilegen: tag kind %q on %s.%s is not supported", kind, t.Name(), f.Name))
			}
		}
		return ti
	}
	s.Root = walk(reflect.TypeOf(profile.HavocConfig{}), nil)
	sort.Slice(s.Types, func(i, j int) bool { return s.Types[i].Name < s.Types[j].Name })
	return s
}

// Type returns the TypeInfo named n.
func (s *Schema) Type(n string) *TypeInfo {
	for _, t := range s.Types {
		if t.Name == n {
			return t
		}
	}
	return nil
}
