package profilegen

type namedDoc struct {
	Name string
	Doc  *Body
}

// NamedDoc is the exported view of a base document.
type NamedDoc = namedDoc

// Shipped profiles of /repo/profiles, transcribed by hand as documents.  Package c14
// loads the real files and compares them with these (only while the file still has the
// content that was transcribed, see ShippedSHA256).
var ShippedSHA256 = map[string]string{
	"havoc.yaotl":           "2158cf10d47d62a3326ffb2f1752a0bffcaeb223baa68c695661c052252cd401",
	"http_smb.yaotl":        "fa592076796fa9afcd6427ff076d1e8b8bc8435326437e648faad7cfc3e4ed25",
	"webhook_example.yaotl": "c465b475bf97eefe10ff31922abb9ff5cdc7df37863794633e853412aea7f069",
}

func operators() *Body {
	ops := &Body{}
	ops.AddBlock("user", (&Body{}).AddAttr("Password", Str("password1234")), "5pider")
	ops.AddBlock("user", (&Body{}).AddAttr("Password", Str("password1234")), "Neo")
	return ops
}

func service() *Body {
	return (&Body{}).AddAttr("Endpoint", Str("service-endpoint")).AddAttr("Password", Str("service-password"))
}

func demon(jitter int64, spawn64, spawn32 string) *Body {
	d := &Body{}
	d.AddAttr("Sleep", Int(2)).AddAttr("Jitter", Int(jitter)).AddAttr("TrustXForwardedFor", Bool(false))
	d.AddBlock("Injection", (&Body{}).AddAttr("Spawn64", Str(spawn64)).AddAttr("Spawn32", Str(spawn32)))
	return d
}

// ShippedHavoc is profiles/havoc.yaotl.
func ShippedHavoc() *Body {
	root := &Body{}
	ts := &Body{}
	ts.AddAttr("Host", Str("0.0.0.0")).AddAttr("Port", Int(40056))
	ts.AddBlock("Build", (&Body{}).
		AddAttr("Compiler64", Str("data/x86_64-w64-mingw32-cross/bin/x86_64-w64-mingw32-gcc")).
		AddAttr("Compiler86", Str("data/i686-w64-mingw32-cross/bin/i686-w64-mingw32-gcc")).
		AddAttr("Nasm", Str("/usr/bin/nasm")))
	root.AddBlock("Teamserver", ts)
	root.AddBlock("Operators", operators())
	root.AddBlock("Service", service())
	root.AddBlock("Demon", demon(15, "C:\\Windows\\System32\\notepad.exe", "C:\\Windows\\SysWOW64\\notepad.exe"))
	return root
}

// ShippedHTTPSMB is profiles/http_smb.yaotl.
func ShippedHTTPSMB() *Body {
	root := &Body{}
	ts := &Body{}
	ts.AddAttr("Host", Str("0.0.0.0")).AddAttr("Port", Int(40056))
	ts.AddBlock("Build", (&Body{}).
		AddAttr("Compiler64", Str("/usr/bin/x86_64-w64-mingw32-gcc")).
		AddAttr("Compiler86", Str("/usr/bin/i686-w64-mingw32-gcc")).
		AddAttr("Nasm", Str("/usr/bin/nasm")))
	root.AddBlock("Teamserver", ts)
	root.AddBlock("Operators", operators())
	ls := &Body{}
	h := &Body{}
	h.AddAttr("Name", Str("teams profile - http"))
	h.AddAttr("Hosts", List("5pider.net"))
	h.AddAttr("HostBind", Str("0.0.0.0"))
	h.AddAttr("HostRotation", Str("round-robin"))
	h.AddAttr("PortBind", Int(443))
	h.AddAttr("PortConn", Int(443))
	h.AddAttr("Secure", Bool(false))
	h.AddAttr("KillDate", Str("2024-01-02 12:00:00"))
	h.AddAttr("UserAgent", Str("Mozilla/5.0 (Windows NT 6.1; WOW64) AppleWebKit/537.36 (KHTML, like Gecko) Chrome/96.0.4664.110 Safari/537.36"))
	h.AddAttr("Uris", List("/Collector/2.0/settings/"))
	h.AddAttr("Headers", List(
		"Accept: json",
		"Referer: https://teams.microsoft.com/_",
		"x-ms-session-id: f73c3186-057a-d996-3b63-b6e5de6ef20c",
		"x-ms-client-type: desktop",
		"x-mx-client-version: 27/1.0.0.2021020410",
		"Accept-Encoding: gzip, deflate, br",
		"Origin: https://teams.microsoft.com"))
	h.AddBlock("Response", (&Body{}).AddAttr("Headers", List(
		"Content-Type: application/json; charset=utf-8",
		"Server: Microsoft-HTTPAPI/2.0",
		"X-Content-Type-Options: nosniff",
		"x-ms-environment: North Europe-prod-3,_cnsVMSS-6_26",
		"x-ms-latency: 40018.2038",
		"Access-Control-Allow-Origin: https://teams.microsoft.com",
		"Access-Control-Allow-Credentials: true",
		"Connection: keep-alive")))
	ls.AddBlock("Http", h)
	ls.AddBlock("Smb", (&Body{}).AddAttr("Name", Str("Pivot - Smb")).AddAttr("PipeName", Str("demon_pipe")))
	root.AddBlock("Listeners", ls)
	root.AddBlock("Service", service())
	root.AddBlock("Demon", demon(20, "C:\\Windows\\System32\\Werfault.exe", "C:\\Windows\\SysWOW64\\Werfault.exe"))
	return root
}

// ShippedWebhook is profiles/webhook_example.yaotl.
func ShippedWebhook() *Body {
	root := &Body{}
	root.AddBlock("Teamserver", (&Body{}).AddAttr("Host", Str("0.0.0.0")).AddAttr("Port", Int(40056)))
	wh := &Body{}
	wh.AddBlock("Discord", (&Body{}).
		AddAttr("Url", Str("...")).
		AddAttr("AvatarUrl", Str("https://raw.githubusercontent.com/HavocFramework/Havoc/main/Assets/Havoc.png")).
		AddAttr("User", Str("Havoc")))
	root.AddBlock("WebHook", wh)
	root.AddBlock("Operators", operators())
	root.AddBlock("Service", service())
	root.AddBlock("Demon", demon(30, "C:\\Windows\\System32\\notepad.exe", "C:\\Windows\\SysWOW64\\notepad.exe"))
	return root
}

// Shipped maps file name -> transcription.
func Shipped() map[string]*Body {
	return map[string]*Body{
		"havoc.yaotl":           ShippedHavoc(),
		"http_smb.yaotl":        ShippedHTTPSMB(),
		"webhook_example.yaotl": ShippedWebhook(),
	}
}

// Bases are the valid profiles from which single faults are derived and to which every
// layout is applied: the three shipped ones, a full one (every attribute and block of
// every type, repeated blocks twice), a minimal one (every top-level block with only
// what is required) and one with three HTTP listeners that differ in their optional
// sub-blocks.
func (g *Gen) Bases() []namedDoc {
	bases := []namedDoc{
		{"shipped-havoc", ShippedHavoc()},
		{"shipped-http_smb", ShippedHTTPSMB()},
		{"shipped-webhook", ShippedWebhook()},
		{"full", g.FullBody(g.S.Root)},
	}
	min := &Body{}
	for i := range g.S.Root.Blocks {
		bi := &g.S.Root.Blocks[i]
		g.addDefaultBlock(min, bi, g.DefaultBody(bi.Type, nil, 1), 0)
	}
	bases = append(bases, namedDoc{"minimal", min})

	// listeners: one per repeated block type of every type that has them, with varying
	// optional sub-blocks
	multi := &Body{}
	for i := range g.S.Root.Blocks {
		bi := &g.S.Root.Blocks[i]
		body := g.DefaultBody(bi.Type, nil, 1)
		for j := range bi.Type.Blocks {
			bj := &bi.Type.Blocks[j]
			if !bj.Multi {
				continue
			}
			for k := 0; k < 3; k++ {
				k := k
				sel := func(name string) bool {
					// k-th instance gets the k-th third of the optional items
					idx := 0
					for _, a := range bj.Type.Attrs {
						if a.Optional {
							if a.Name == name {
								return idx%3 == k
							}
							idx++
						}
					}
					for _, b := range bj.Type.Blocks {
						if b.Name == name {
							return idx%3 == k
						}
						idx++
					}
					return false
				}
				g.addDefaultBlock(body, bj, g.DefaultBody(bj.Type, sel, 1), k)
			}
		}
		g.addDefaultBlock(multi, bi, body, 0)
	}
	bases = append(bases, namedDoc{"multi", multi})
	return bases
}
