package profilegen

import (
	"fmt"
	"strings"
)

// Part S: files that are big.  "Lists and maps of all sizes", "arbitrary strings" and
// "comments, blank lines" put no limit on the size of a profile: a valid profile of any
// length means what it says.  (a) the shipped http+smb profile with comment lines, or
// blank lines, inserted between two top-level blocks so that the next block starts exactly
// at a given offset (both sides of 4 KiB, 32 KiB, 64 KiB, 128 KiB, 1 MiB: the sizes at
// which a reader's buffer or a limit would sit); (b) a listener with 2 000 / 20 000 hosts
// and as many headers; (c) a user agent of 3 000 lines (heredoc) or of 100 000 characters.
var SizeOffsets = []int{4095, 4096, 4097, 32767, 32768, 32769, 65535, 65536, 65537, 70000, 131071, 131072, 131073, 200000, 1 << 20, 1<<20 + 1}

func (g *Gen) sizeJobs() []Job {
	var jobs []Job
	jobs = append(jobs, Job{"size/padding", func(emit func(*Case)) {
		doc := ShippedHTTPSMB()
		want := g.mustExpect(doc)
		src := string(Print(doc, DefaultStyle).Src)
		// the start of the last two top-level blocks
		var cuts []int
		for _, name := range []string{"\nService", "\nDemon", "\nListeners"} {
			if i := strings.Index(src, name+" "); i >= 0 {
				cuts = append(cuts, i+1)
			}
		}
		for _, cut := range cuts {
			for _, off := range SizeOffsets {
				if off <= cut {
					continue
				}
				for _, kind := range []string{"comment", "blank"} {
					pad := padding(off-cut, kind)
					emit(&Case{Part: "size", Where: "padding-" + kind, Src: []byte(src[:cut] + pad + src[cut:]), Want: want,
						Variant: fmt.Sprintf("next block (byte %d of the unpadded file) starts at offset %d", cut, off)})
				}
			}
		}
	}})
	for _, n := range []int{2000, 20000} {
		n := n
		jobs = append(jobs, Job{fmt.Sprintf("size/list-%d", n), func(emit func(*Case)) {
			doc := ShippedHTTPSMB()
			h := doc.FindBlocks("Listeners")[0].Body.FindBlocks("Http")[0].Body
			hosts := make([]string, n)
			hdrs := make([]string, n)
			for i := range hosts {
				hosts[i] = fmt.Sprintf("host-%05d.example.org:%d", i, 1024+i%60000)
				hdrs[i] = fmt.Sprintf("X-H%05d: value %d", i, i)
			}
			setAttr(h, "Hosts", List(hosts...))
			setAttr(h, "Headers", List(hdrs...))
			for _, layout := range []int{0, 1} {
				st := DefaultStyle
				st.ListLayout = layout
				emit(&Case{Part: "size", Where: "long-lists", Src: Print(doc, st).Src, Want: g.mustExpect(doc), Variant: fmt.Sprintf("%d hosts and headers, list layout %d", n, layout)})
			}
		}})
	}
	jobs = append(jobs, Job{"size/long-string", func(emit func(*Case)) {
		for _, sp := range []Spelling{SpRaw, SpHeredoc} {
			doc := ShippedHTTPSMB()
			h := doc.FindBlocks("Listeners")[0].Body.FindBlocks("Http")[0].Body
			var s string
			if sp == SpHeredoc {
				var b strings.Builder
				for i := 0; i < 3000; i++ {
					fmt.Fprintf(&b, "line %04d of a user agent that goes on and on\n", i)
				}
				s = b.String()
			} else {
				s = strings.Repeat("Mozilla/5.0 ", 100000/12)
			}
			setAttr(h, "UserAgent", StrSp(s, sp))
			emit(&Case{Part: "size", Where: "long-string", Src: Print(doc, DefaultStyle).Src, Want: g.mustExpect(doc), Variant: fmt.Sprintf("user agent of %d bytes, spelling %v", len(s), sp)})
		}
	}})
	return jobs
}

// padding returns n bytes of comment lines or blank lines (n >= 1), ending in a newline.
func padding(n int, kind string) string {
	if kind == "blank" {
		return strings.Repeat("\n", n)
	}
	var b strings.Builder
	for b.Len() < n {
		rest := n - b.Len()
		switch {
		case rest == 1:
			b.WriteString("\n")
		case rest <= 66:
			b.WriteString("#" + strings.Repeat("p", rest-2) + "\n")
		case rest == 67:
			b.WriteString("#" + strings.Repeat("p", 30) + "\n")
		default:
			b.WriteString("# " + strings.Repeat("pad ", 15) + "pa\n") // 65 bytes
		}
	}
	return b.String()
}
