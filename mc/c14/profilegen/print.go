package profilegen

import (
	"strings"
)

// Style is the layout of a printed document: everything about the text that does not
// change what the profile says.
type Style struct {
	Indent      string // one level of indentation
	Eq          string // text between attribute name and value, normally " = "
	BlankLines  int    // 0 none, 1 one blank line between items, 2 also after { and before }
	Comments    int    // see comment kinds below
	ListLayout  int    // 0 one line, 1 one element per line, 2 one per line with trailing comma
	MapLayout   int    // 0 multi-line "k = v", 1 multi-line "k: v,", 2 one line "{ k = v, k2 = v2 }"
	BareLabels  bool   // write identifier-like labels and map keys without quotes
	NoFinalEOL  bool   // no newline after the last closing brace
	OneLineSolo bool   // write a block whose body is a single quoted/number/bool attribute on one line
}

// comment kinds
const (
	CNone         = 0
	CHashLines    = 1 // "# ..." lines before every item and before every closing brace
	CSlashTrail   = 2 // "// ..." at the end of every line that may carry one
	CInline       = 3 // "/* ... */" between the tokens of attribute lines and block headers
	CMultiBlock   = 4 // "/* ...\n ... */" blocks on their own lines before every item
	CAll          = 5 // all of the above
	NCommentKinds = 6
)

var DefaultStyle = Style{Indent: "    ", Eq: " = "}

// Pos is the line span of a printed node (1-based, inclusive).
type Pos struct{ From, To int }

// Printed is the result of printing a document.
type Printed struct {
	Src    []byte
	Lines  int
	Attr   map[*Attr]Pos  // whole attribute definition
	Block  map[*Block]Pos // header line .. closing brace line
	Head   map[*Block]int // line of the block header
	BodyOf map[*Body]Pos  // for the body of a block: same as the block; root: whole file
}

type printer struct {
	st   Style
	b    strings.Builder
	line int
	out  *Printed
	// comment texts are chosen to contain what must NOT end a comment or start a
	// string early if comments were mis-scanned
	ncomment int
}

// Print writes the document in the given style.
func Print(doc *Body, st Style) *Printed {
	p := &printer{st: st, line: 1, out: &Printed{Attr: map[*Attr]Pos{}, Block: map[*Block]Pos{}, Head: map[*Block]int{}, BodyOf: map[*Body]Pos{}}}
	if st.Comments == CHashLines || st.Comments == CAll {
		p.ws("# profile \"generated\" { = }\n")
	}
	if st.Comments == CMultiBlock || st.Comments == CAll {
		p.ws("/* leading\n   block = \"comment\" {\n */\n")
	}
	p.body(doc, 0)
	src := p.b.String()
	if st.NoFinalEOL && strings.HasSuffix(src, "\n") && !endsWithHeredocMarker(src) {
		// (a heredoc's closing marker needs its newline; any other last line does not)
		src = src[:len(src)-1]
	}
	p.out.Src = []byte(src)
	p.out.Lines = p.line
	p.out.BodyOf[doc] = Pos{1, p.line}
	return p.out
}

func endsWithHeredocMarker(src string) bool {
	t := strings.TrimSuffix(src, "\n")
	i := strings.LastIndexByte(t, '\n')
	last := strings.Trim(t[i+1:], " \t")
	for _, m := range heredocMarkers {
		if last == m {
			return true
		}
	}
	return false
}

func (p *printer) ws(s string) {
	p.b.WriteString(s)
	p.line += strings.Count(s, "\n")
}

func (p *printer) ind(depth int) {
	for i := 0; i < depth; i++ {
		p.b.WriteString(p.st.Indent)
	}
}

func (p *printer) has(kind int) bool { return p.st.Comments == kind || p.st.Comments == CAll }

func (p *printer) trail() string {
	if p.has(CSlashTrail) {
		p.ncomment++
		if p.ncomment%2 == 0 {
			return " // trailing \"x\" = { /* not a block comment"
		}
		return " # trailing } \"y"
	}
	return ""
}

func (p *printer) inline() string {
	if p.has(CInline) {
		return " /* in = \"line\" # // */ "
	}
	return ""
}

func (p *printer) before(depth int) {
	if p.has(CHashLines) {
		p.ind(depth)
		p.ws("# Name = \"commented out\"\n")
		p.ind(depth)
		p.ws("// Block {\n")
	}
	if p.has(CMultiBlock) {
		p.ind(depth)
		p.ws("/* multi\n")
		p.ind(depth)
		p.ws("   line } \" */\n")
	}
}

func (p *printer) body(b *Body, depth int) {
	for i, it := range b.Items {
		if i > 0 && p.st.BlankLines >= 1 {
			p.ws("\n")
		}
		p.before(depth)
		if it.A != nil {
			p.attr(it.A, depth)
		} else {
			p.block(it.B, depth)
		}
	}
}

func (p *printer) label(l Label) string {
	if l.Raw != "" {
		return l.Raw
	}
	if (l.Sp == SpBare || p.st.BareLabels) && IsIdent(l.S) {
		return l.S
	}
	sp := l.Sp
	if sp == SpBare || sp >= SpHeredoc {
		sp = SpRaw
	}
	t, _ := SpellQuoted(l.S, sp)
	return t
}

func (p *printer) block(blk *Block, depth int) {
	start := p.line
	p.ind(depth)
	p.b.WriteString(blk.Type)
	for _, l := range blk.Labels {
		p.b.WriteByte(' ')
		p.b.WriteString(p.inline())
		p.b.WriteString(p.label(l))
	}
	p.b.WriteByte(' ')
	p.b.WriteString(p.inline())
	p.out.Head[blk] = start
	if p.st.OneLineSolo && len(blk.Body.Items) == 1 && blk.Body.Items[0].A != nil && p.st.Comments == CNone {
		a := blk.Body.Items[0].A
		if t, ok := p.simpleValue(a.V); ok {
			p.b.WriteString("{ " + a.Name + p.st.Eq + t + " }")
			p.ws("\n")
			p.out.Attr[a] = Pos{start, start}
			p.out.Block[blk] = Pos{start, start}
			p.out.BodyOf[blk.Body] = Pos{start, start}
			return
		}
	}
	p.b.WriteString("{")
	p.ws(p.trail() + "\n")
	if p.st.BlankLines >= 2 {
		p.ws("\n")
	}
	p.body(blk.Body, depth+1)
	if p.st.BlankLines >= 2 {
		p.ws("\n")
	}
	if p.has(CHashLines) {
		p.ind(depth + 1)
		p.ws("# end of " + blk.Type + " {\n")
	}
	p.ind(depth)
	p.b.WriteString("}")
	end := p.line
	p.ws(p.trail() + "\n")
	p.out.Block[blk] = Pos{start, end}
	p.out.BodyOf[blk.Body] = Pos{start, end}
}

// simpleValue: a value that fits on one line without a heredoc.
func (p *printer) simpleValue(v Value) (string, bool) {
	switch v.Kind {
	case VStr:
		if v.Sp >= SpHeredoc {
			return "", false
		}
		t, _ := SpellQuoted(v.S, v.Sp)
		return t, true
	case VInt:
		return spellIntForm(v.I, v.Num, v.Sp == SpNumStr), true
	case VBool:
		if v.B {
			return "true", true
		}
		return "false", true
	}
	return "", false
}

func (p *printer) attr(a *Attr, depth int) {
	start := p.line
	p.ind(depth)
	p.b.WriteString(a.Name)
	p.b.WriteString(p.inline())
	p.b.WriteString(p.st.Eq)
	p.b.WriteString(p.inline())
	heredocEnd := p.value(a.V, depth)
	end := p.line
	if heredocEnd {
		p.ws("\n")
	} else {
		p.ws(p.inline() + p.trail() + "\n")
	}
	p.out.Attr[a] = Pos{start, end}
}

// str writes a string expression; returns true when it ended with a heredoc marker
// (the caller must then emit a newline before anything else).
func (p *printer) str(v Value, depth int) bool {
	switch {
	case v.Sp == SpHeredoc && HeredocOK(v.S, false):
		t, _ := SpellHeredoc(v.S, false, "")
		p.ws(t)
		return true
	case v.Sp == SpHeredocFlush && HeredocOK(v.S, true):
		t, _ := SpellHeredoc(v.S, true, strings.Repeat(p.indentOrSpaces(), depth+1))
		p.ws(t)
		return true
	}
	sp := v.Sp
	if sp >= SpHeredoc {
		sp = SpRaw
	}
	t, _ := SpellQuoted(v.S, sp)
	p.b.WriteString(t)
	return false
}

// flush heredocs are indented with spaces only
func (p *printer) indentOrSpaces() string {
	if strings.Trim(p.st.Indent, " ") == "" && p.st.Indent != "" {
		return p.st.Indent
	}
	return "  "
}

func (p *printer) value(v Value, depth int) (heredocEnd bool) {
	switch v.Kind {
	case VRaw:
		p.ws(v.Raw)
	case VStr:
		return p.str(v, depth)
	case VInt:
		p.b.WriteString(spellIntForm(v.I, v.Num, v.Sp == SpNumStr))
	case VBool:
		if v.B {
			p.b.WriteString("true")
		} else {
			p.b.WriteString("false")
		}
	case VList:
		p.list(v, depth)
	case VMap:
		p.mapv(v, depth)
	}
	return false
}

func hasHeredoc(v Value) bool {
	switch v.Kind {
	case VStr:
		return (v.Sp == SpHeredoc && HeredocOK(v.S, false)) || (v.Sp == SpHeredocFlush && HeredocOK(v.S, true))
	case VList:
		for _, e := range v.L {
			if hasHeredoc(e) {
				return true
			}
		}
	case VMap:
		for _, kv := range v.M {
			if hasHeredoc(kv.V) {
				return true
			}
		}
	}
	return false
}

func (p *printer) list(v Value, depth int) {
	layout := p.st.ListLayout
	if len(v.L) == 0 {
		p.b.WriteString("[]")
		return
	}
	if hasHeredoc(v) && layout == 0 {
		layout = 1
	}
	if layout == 0 {
		p.b.WriteString("[")
		for i, e := range v.L {
			if i > 0 {
				p.b.WriteString(", ")
			}
			p.value(e, depth+1)
		}
		p.b.WriteString("]")
		return
	}
	p.b.WriteString("[")
	p.ws(p.trail() + "\n")
	for i, e := range v.L {
		p.ind(depth + 1)
		hd := p.value(e, depth+1)
		if hd {
			p.ws("\n")
			p.ind(depth + 1)
		}
		last := i == len(v.L)-1
		if !last || layout == 2 {
			p.b.WriteString(",")
		}
		p.ws(p.trail() + "\n")
	}
	p.ind(depth)
	p.b.WriteString("]")
}

func (p *printer) key(kv KV) string {
	if kv.KSp == spVerbatim {
		return kv.K
	}
	if (kv.KSp == SpBare || p.st.BareLabels) && IsIdent(kv.K) {
		return kv.K
	}
	sp := kv.KSp
	if sp == SpBare || sp >= SpHeredoc {
		sp = SpRaw
	}
	t, _ := SpellQuoted(kv.K, sp)
	return t
}

func (p *printer) mapv(v Value, depth int) {
	layout := p.st.MapLayout
	if len(v.M) == 0 {
		p.b.WriteString("{}")
		return
	}
	if hasHeredoc(v) && layout == 2 {
		layout = 0
	}
	if layout == 2 {
		p.b.WriteString("{ ")
		for i, kv := range v.M {
			if i > 0 {
				p.b.WriteString(", ")
			}
			p.b.WriteString(p.key(kv))
			p.b.WriteString(" = ")
			p.value(kv.V, depth+1)
		}
		p.b.WriteString(" }")
		return
	}
	p.b.WriteString("{")
	p.ws(p.trail() + "\n")
	for _, kv := range v.M {
		p.ind(depth + 1)
		p.b.WriteString(p.key(kv))
		if layout == 1 {
			p.b.WriteString(": ")
		} else {
			p.b.WriteString(" = ")
		}
		hd := p.value(kv.V, depth+1)
		if hd {
			p.ws("\n") // the newline after the closing marker also separates the entries
			continue
		}
		if layout == 1 {
			p.b.WriteString(",")
		}
		p.ws(p.trail() + "\n")
	}
	p.ind(depth)
	p.b.WriteString("}")
}
