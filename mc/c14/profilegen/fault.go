package profilegen

import (
	"fmt"
	"sort"
	"strings"
)

// A fault is a mutation of a valid base document.  mutate receives a fresh deep copy of
// the base and the body (inside that copy) the fault applies to; it returns the nodes
// whose printed lines are "the place of the fault".
type faultSpec struct {
	kind, sub, name string
	path            []int // item indices from the root to the body
	typ             *TypeInfo
	mutate          func(body *Body) (items []*Item)
}

func bodyAt(root *Body, path []int) *Body {
	b := root
	for _, i := range path {
		b = b.Items[i].B.Body
	}
	return b
}

func insertItem(b *Body, at int, it Item) {
	b.Items = append(b.Items, Item{})
	copy(b.Items[at+1:], b.Items[at:])
	b.Items[at] = it
}

func removeItem(b *Body, at int) {
	b.Items = append(b.Items[:at], b.Items[at+1:]...)
}

func flipCase(s string) string {
	l := strings.ToLower(s)
	if l != s {
		return l
	}
	return strings.ToUpper(s)
}

// wrongKinds: literal source text of values of another kind, per attribute kind.
func wrongKinds(k AttrKind) [][2]string {
	switch k {
	case KString:
		return [][2]string{{"list", `["x"]`}, {"empty-list", `[]`}, {"map", `{ a = "x" }`}, {"empty-map", `{}`}}
	case KInt:
		return [][2]string{{"non-numeric-string", `"abc"`}, {"empty-string", `""`}, {"digits-then-letters", `"12abc"`},
			{"bool", `true`}, {"list", `[1]`}, {"map", `{ a = 1 }`}, {"fraction", `1.5`}, {"fraction-string", `"1.5"`}}
	case KBool:
		return [][2]string{{"number-1", `1`}, {"number-0", `0`}, {"non-bool-string", `"yes"`}, {"list", `[true]`}, {"map", `{ a = true }`}}
	case KList:
		return [][2]string{{"string", `"x"`}, {"number", `5`}, {"bool", `true`}, {"map", `{ a = "x" }`},
			{"list-of-lists", `[["x"]]`}, {"list-with-map", `["x", { a = "y" }]`}}
	default:
		return [][2]string{{"string", `"x"`}, {"number", `5`}, {"list", `["x"]`}, {"map-of-lists", `{ a = ["x"] }`}, {"map-of-maps", `{ a = { b = "x" } }`}}
	}
}

func (g *Gen) allNames() (attrs, blocks []string) {
	as, bs := map[string]bool{}, map[string]bool{}
	for _, t := range g.S.Types {
		for _, a := range t.Attrs {
			as[a.Name] = true
		}
		for _, b := range t.Blocks {
			bs[b.Name] = true
		}
	}
	for n := range as {
		attrs = append(attrs, n)
	}
	for n := range bs {
		blocks = append(blocks, n)
	}
	sort.Strings(attrs)
	sort.Strings(blocks)
	return
}

// faultsOf enumerates every single fault of every kind of a base document.
func (g *Gen) faultsOf(base *Body) []faultSpec {
	var out []faultSpec
	allAttrs, allBlocks := g.allNames()
	var walk func(b *Body, ti *TypeInfo, path []int)
	walk = func(b *Body, ti *TypeInfo, path []int) {
		path = append([]int(nil), path...)
		add := func(kind, sub, name string, m func(body *Body) []*Item) {
			out = append(out, faultSpec{kind: kind, sub: sub, name: name, path: path, typ: ti, mutate: m})
		}
		n := len(b.Items)
		for i, it := range b.Items {
			i := i
			if it.A != nil {
				ai := ti.Attr(it.A.Name)
				// 1. omit a required setting
				if !ai.Optional {
					add("missing-required", ai.Kind.String(), ai.Name, func(body *Body) []*Item {
						removeItem(body, i)
						return nil
					})
				}
				// 3b. unknown attribute by misspelling an existing one (letter case)
				add("unknown-attribute", "case-of-"+ai.Kind.String(), flipCase(ai.Name), func(body *Body) []*Item {
					body.Items[i].A.Name = flipCase(body.Items[i].A.Name)
					return []*Item{&body.Items[i]}
				})
				// 5. value of the wrong kind
				for _, wk := range wrongKinds(ai.Kind) {
					wk := wk
					add("wrong-kind", ai.Kind.String()+"<-"+wk[0], ai.Name, func(body *Body) []*Item {
						body.Items[i].A.V = Raw(wk[1])
						return []*Item{&body.Items[i]}
					})
				}
				// 5b. a block where an attribute is expected
				add("wrong-kind", ai.Kind.String()+"<-block", ai.Name, func(body *Body) []*Item {
					body.Items[i] = Item{B: &Block{Type: ai.Name, Body: &Body{}}}
					return []*Item{&body.Items[i]}
				})
				continue
			}
			bi := ti.Block(it.B.Type)
			// 2. repeat a single block (right after the original / at the end of the body)
			if !bi.Multi {
				for _, where := range []string{"adjacent", "at-end"} {
					where := where
					if where == "at-end" && i == n-1 {
						continue
					}
					add("duplicate-single-block", where, bi.Name, func(body *Body) []*Item {
						dup := Item{B: &Block{Type: body.Items[i].B.Type, Labels: body.Items[i].B.Labels, Body: body.Items[i].B.Body.Clone()}}
						at := i + 1
						if where == "at-end" {
							at = len(body.Items)
						}
						insertItem(body, at, dup)
						return []*Item{&body.Items[i], &body.Items[at]}
					})
				}
			}
			// 5c. an attribute where a block is expected
			for _, form := range [][2]string{{"string", `"x"`}, {"map", `{}`}, {"list", `[]`}} {
				form := form
				add("wrong-kind", "block<-"+form[0], bi.Name, func(body *Body) []*Item {
					body.Items[i] = Item{A: &Attr{Name: bi.Name, V: Raw(form[1])}}
					return []*Item{&body.Items[i]}
				})
			}
			// 5d. labels: one too few / one too many
			nl := len(bi.Type.Labels)
			if nl > 0 {
				add("wrong-kind", "label-missing", bi.Name, func(body *Body) []*Item {
					body.Items[i].B.Labels = body.Items[i].B.Labels[:nl-1]
					return []*Item{&body.Items[i]}
				})
			}
			add("wrong-kind", "label-extra", bi.Name, func(body *Body) []*Item {
				blk := body.Items[i].B
				blk.Labels = append(append([]Label(nil), blk.Labels...), Label{S: "extra"})
				return []*Item{&body.Items[i]}
			})
			walk(it.B.Body, bi.Type, append(path, i))
		}
		// 3. unknown attribute: a made-up name, and every attribute name of the schema that
		// this block type does not have; first and last in the body
		names := []string{"Bogus"}
		for _, a := range allAttrs {
			if ti.Attr(a) == nil && ti.Block(a) == nil {
				names = append(names, a)
			}
		}
		for ni, name := range names {
			name := name
			for _, at := range []int{0, n} {
				at := at
				if ni > 0 && at == 0 && n > 0 {
					continue // foreign names only at the end
				}
				sub := "made-up"
				if ni > 0 {
					sub = "of-another-block"
				}
				add("unknown-attribute", sub, name, func(body *Body) []*Item {
					insertItem(body, at, Item{A: &Attr{Name: name, V: Str("x")}})
					return []*Item{&body.Items[at]}
				})
			}
		}
		// 4. unknown block
		bnames := []string{"Bogus"}
		for _, bn := range allBlocks {
			if ti.Block(bn) == nil && ti.Attr(bn) == nil {
				bnames = append(bnames, bn)
			}
		}
		for ni, name := range bnames {
			name := name
			for _, at := range []int{0, n} {
				at := at
				if ni > 0 && at == 0 && n > 0 {
					continue
				}
				sub := "made-up"
				if ni > 0 {
					sub = "of-another-block"
				}
				add("unknown-block", sub, name, func(body *Body) []*Item {
					insertItem(body, at, Item{B: &Block{Type: name, Body: &Body{}}})
					return []*Item{&body.Items[at]}
				})
			}
		}
	}
	walk(base, g.S.Root, nil)
	return out
}

func (g *Gen) faultJobs() []Job {
	var jobs []Job
	styles := []namedStyle{{"default", DefaultStyle}, {"hash-comments+blank", Style{Indent: "  ", Eq: " = ", BlankLines: 1, Comments: CHashLines, ListLayout: 1}},
		// comments that span lines: the place an error names is counted across them
		{"block-comments", Style{Indent: "    ", Eq: " = ", Comments: CMultiBlock}}}
	if g.Thorough {
		styles = append(styles, namedStyle{"busy", busyStyle}, namedStyle{"compact", Style{Indent: "", Eq: "=", MapLayout: 2, NoFinalEOL: true}})
	}
	for _, base := range g.Bases() {
		base := base
		jobs = append(jobs, Job{"fault/" + base.Name, func(emit func(*Case)) {
			for _, f := range g.faultsOf(base.Doc) {
				for _, st := range styles {
					doc := base.Doc.Clone()
					body := bodyAt(doc, f.path)
					items := f.mutate(body)
					if _, err := g.S.Expected(doc); err == nil {
						panic(fmt.Sprintf("profilegen: fault %s/%s of %s left a valid document", f.kind, f.sub, base.Name))
					}
					pr := Print(doc, st.St)
					fe := &FaultExpect{Kind: f.kind, Sub: f.sub, Type: f.typ.Name, Name: f.name, Encl: pr.BodyOf[body], Base: base.Name}
					for _, it := range items {
						if it.A != nil {
							fe.Items = append(fe.Items, pr.Attr[it.A])
						} else {
							fe.Items = append(fe.Items, pr.Block[it.B])
						}
					}
					emit(&Case{Part: "fault", Where: f.typ.Name + "." + f.name, Src: pr.Src, Fault: fe,
						Variant: fmt.Sprintf("base=%s style=%s", base.Name, st.Name)})
				}
			}
		}})
	}
	return jobs
}
