package profilegen

import (
	"strconv"
	"strings"
	"unicode/utf8"
)

// The spellings of a string value that the property statement lists.
const (
	SpRaw          Spelling = iota // quoted; raw UTF-8, only the unavoidable escapes (\" \\ \n \r, $${ %%{)
	SpNamed                        // quoted; \t and the other C0 controls / DEL escaped too (\t, else \xHH); non-ASCII raw
	SpHexNonASCII                  // SpNamed, and every byte of a non-ASCII character as \xHH
	SpHexAll                       // quoted; every byte as \xHH
	SpHexMarker                    // SpRaw, but a template marker is defused by writing its $ or % as \x24 / \x25
	SpHeredoc                      // <<EOT ... EOT
	SpHeredocFlush                 // <<-EOT ... EOT, indented
	SpBare                         // bare identifier (block labels and map keys only)
	SpNumStr                       // (numbers) quoted decimal string
	nSpellings
	spVerbatim Spelling = 100 // internal: the text is already source text
)

var spellingNames = [...]string{"raw", "named", "hex-nonascii", "hex-all", "hex-marker", "heredoc", "heredoc-flush", "bare", "numstr"}

func (s Spelling) String() string {
	if int(s) < len(spellingNames) {
		return spellingNames[s]
	}
	return "verbatim"
}

// QuotedSpellings are usable everywhere a quoted string is; HeredocSpellings only as
// an expression (attribute value, list element, map value).
var QuotedSpellings = []Spelling{SpRaw, SpNamed, SpHexNonASCII, SpHexAll, SpHexMarker}
var ExprSpellings = []Spelling{SpRaw, SpNamed, SpHexNonASCII, SpHexAll, SpHexMarker, SpHeredoc, SpHeredocFlush}

// Tok says how one rune of the value was written (used only to classify a mismatch).
type Tok byte

const (
	TLit     Tok = 'l' // the character itself
	TNamed   Tok = 'n' // \n \r \t \" \\
	THex     Tok = 'x' // \xHH (one per byte)
	TTmplEsc Tok = 't' // the $ / % of $${ or %%{
)

const hexdigits = "0123456789abcdef"

func hexEsc(b *strings.Builder, c byte) {
	b.WriteString(`\x`)
	b.WriteByte(hexdigits[c>>4])
	b.WriteByte(hexdigits[c&15])
}

// SpellQuoted writes s as a quoted string in spelling sp (one of QuotedSpellings).
// toks has one entry per rune of s.
func SpellQuoted(s string, sp Spelling) (text string, toks []Tok) {
	var b strings.Builder
	b.Grow(len(s) + 8)
	b.WriteByte('"')
	for i := 0; i < len(s); {
		r, n := utf8.DecodeRuneInString(s[i:])
		c := s[i]
		marker := (c == '$' || c == '%') && i+1 < len(s) && s[i+1] == '{'
		switch {
		case sp == SpHexAll:
			for k := 0; k < n; k++ {
				hexEsc(&b, s[i+k])
			}
			toks = append(toks, THex)
		case marker && sp == SpHexMarker:
			hexEsc(&b, c)
			toks = append(toks, THex)
		case marker:
			b.WriteByte(c)
			b.WriteByte(c)
			toks = append(toks, TTmplEsc)
		case c == '"':
			b.WriteString(`\"`)
			toks = append(toks, TNamed)
		case c == '\\':
			b.WriteString(`\\`)
			toks = append(toks, TNamed)
		case c == '\n':
			b.WriteString(`\n`)
			toks = append(toks, TNamed)
		case c == '\r':
			b.WriteString(`\r`)
			toks = append(toks, TNamed)
		case c == '\t' && sp != SpRaw && sp != SpHexMarker:
			b.WriteString(`\t`)
			toks = append(toks, TNamed)
		case (c < 0x20 || c == 0x7f) && sp != SpRaw && sp != SpHexMarker:
			hexEsc(&b, c)
			toks = append(toks, THex)
		case r >= 0x80 && sp == SpHexNonASCII:
			for k := 0; k < n; k++ {
				hexEsc(&b, s[i+k])
			}
			toks = append(toks, THex)
		default:
			b.WriteString(s[i : i+n])
			toks = append(toks, TLit)
		}
		i += n
	}
	b.WriteByte('"')
	return b.String(), toks
}

func isBlankLine(l string) bool { return strings.Trim(l, " \t") == "" }

// HeredocOK reports whether s can be written as a heredoc (flush or plain).
// Plain: empty, or ends with a newline; no carriage return.  Flush additionally needs
// a non-blank line that starts with neither a space nor a tab (so that the indentation
// this printer adds is exactly the common indentation that gets stripped again) and no
// whitespace-only line.
func HeredocOK(s string, flush bool) bool {
	if s == "" {
		return !flush
	}
	if !strings.HasSuffix(s, "\n") || strings.ContainsRune(s, '\r') {
		return false
	}
	if !flush {
		return true
	}
	anchor := false
	for _, l := range strings.Split(s[:len(s)-1], "\n") {
		if l == "" {
			continue
		}
		if isBlankLine(l) {
			return false
		}
		if l[0] != ' ' && l[0] != '\t' {
			anchor = true
		}
	}
	return anchor
}

var heredocMarkers = []string{"EOT", "EOF", "END_1", "M2", "M3", "M4"}

// SpellHeredoc writes s as a heredoc.  indent is the indentation used for the lines of
// a flush heredoc and for its closing marker.  The text does NOT end with the newline
// that must follow the closing marker; the caller has to emit one.
func SpellHeredoc(s string, flush bool, indent string) (text string, toks []Tok) {
	var lines []string
	if s != "" {
		lines = strings.Split(s[:len(s)-1], "\n")
	}
	marker := ""
	for _, m := range heredocMarkers {
		clash := false
		for _, l := range lines {
			if strings.Trim(l, " \t") == m {
				clash = true
			}
		}
		if !clash {
			marker = m
			break
		}
	}
	var b strings.Builder
	if flush {
		b.WriteString("<<-")
	} else {
		b.WriteString("<<")
	}
	b.WriteString(marker)
	b.WriteByte('\n')
	for _, l := range lines {
		if flush && l != "" {
			b.WriteString(indent)
		}
		for i := 0; i < len(l); {
			_, n := utf8.DecodeRuneInString(l[i:])
			c := l[i]
			if (c == '$' || c == '%') && i+1 < len(l) && l[i+1] == '{' {
				b.WriteByte(c)
				b.WriteByte(c)
				toks = append(toks, TTmplEsc)
			} else {
				b.WriteString(l[i : i+n])
				toks = append(toks, TLit)
			}
			i += n
		}
		b.WriteByte('\n')
		toks = append(toks, TLit)
	}
	if flush {
		b.WriteString(indent)
	}
	b.WriteString(marker)
	return b.String(), toks
}

// CanSpell reports whether value s can be written in spelling sp.
func CanSpell(s string, sp Spelling) bool {
	switch sp {
	case SpHeredoc:
		return HeredocOK(s, false)
	case SpHeredocFlush:
		return HeredocOK(s, true)
	case SpBare:
		return IsIdent(s)
	case SpNumStr:
		return false
	}
	return true
}

// Distinct reports whether spelling sp of s differs from all the spellings before it in
// list (so that an enumeration does not repeat byte-identical files).
func DistinctSpellings(s string, list []Spelling) []Spelling {
	var out []Spelling
	seen := map[string]bool{}
	for _, sp := range list {
		if !CanSpell(s, sp) {
			continue
		}
		var t string
		switch sp {
		case SpHeredoc:
			t, _ = SpellHeredoc(s, false, "")
		case SpHeredocFlush:
			t, _ = SpellHeredoc(s, true, "  ")
		case SpBare:
			t = s
		default:
			t, _ = SpellQuoted(s, sp)
		}
		if seen[t] {
			continue
		}
		seen[t] = true
		out = append(out, sp)
	}
	return out
}

// IsIdent: usable as a bare label / map key.  Keywords are excluded because as a map
// key they would be evaluated as the keyword's value.
func IsIdent(s string) bool {
	if s == "" || s == "true" || s == "false" || s == "null" || s == "for" {
		return false
	}
	for i := 0; i < len(s); i++ {
		c := s[i]
		switch {
		case c >= 'a' && c <= 'z', c >= 'A' && c <= 'Z', c == '_':
		case (c >= '0' && c <= '9' || c == '-') && i > 0:
		default:
			return false
		}
	}
	return true
}

func spellInt(i int64, asString bool) string { return spellIntForm(i, NumPlain, asString) }

func spellIntForm(i int64, f NumForm, asString bool) string {
	d := strconv.FormatInt(i, 10)
	sign := ""
	if d[0] == '-' {
		sign, d = "-", d[1:]
	}
	switch f {
	case NumZeros:
		d = "00" + d
	case NumPoint:
		d += ".0"
	case NumExp:
		d += "e0"
	case NumExpUp:
		// the last digit behind the point, exponent 1: 40056 = 4005.6E1
		if len(d) > 1 {
			d = d[:len(d)-1] + "." + d[len(d)-1:] + "E1"
		} else {
			d = "0." + d + "E1"
		}
	}
	d = sign + d
	if asString {
		return `"` + d + `"`
	}
	return d
}
