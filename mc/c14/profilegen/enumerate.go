package profilegen

import (
	"fmt"
	"reflect"
	"strings"

	"Havoc/pkg/profile"
)

// Case is one generated profile file with what the check expects of it.
type Case struct {
	Part  string // which enumeration produced it ("presence", "value", ...)
	Where string // type / attribute / context the case is about
	Src   []byte
	Want  *profile.HavocConfig // valid profile: the configuration it denotes
	Fault *FaultExpect         // faulty profile: what must be reported (Want == nil)
	// When the case is about one string value: the value, how it was written and in
	// which role (used to classify a mismatch, never to decide one).
	Str     string
	Sp      Spelling
	Role    string // "attr", "list", "mapval", "mapkey", "label"
	StrToks []Tok
	HasStr  bool
	// a second string the case is about (part "pairs")
	HasStr2 bool
	Str2    string
	Sp2     Spelling
	Path2   string // Go field name the second string is loaded into
	Variant string // spelling / style description for the replay artefact
}

// FaultExpect describes the single fault of a mutated profile.
type FaultExpect struct {
	Kind  string // missing-required | duplicate-single-block | unknown-attribute | unknown-block | wrong-kind
	Sub   string // detail of the kind, e.g. "string<-list"
	Type  string // struct type of the body that contains the fault
	Name  string // attribute / block name that a report should name
	Items []Pos  // line spans of the faulty item(s); empty for missing-required
	Encl  Pos    // line span of the enclosing block (whole file for the top level)
	Base  string
}

// Job is an independent slice of the enumeration (the unit of parallelism).  Jobs and
// the cases inside a job come in a fixed order.
type Job struct {
	Name string
	Run  func(emit func(*Case))
}

type Gen struct {
	S        *Schema
	Thorough bool
}

func NewGen(thorough bool) *Gen { return &Gen{S: Load(), Thorough: thorough} }

// ---- representative values ----

func repString(ti *TypeInfo, ai *AttrInfo) string { return ti.Name + "." + ai.Name + " value" }
func repInt(ti *TypeInfo, ai *AttrInfo) int64 {
	return int64(1000 + 37*ai.Field + len(ti.Name)*3 + len(ai.Name))
}

func repValue(ti *TypeInfo, ai *AttrInfo) Value {
	switch ai.Kind {
	case KString:
		return Str(repString(ti, ai))
	case KInt:
		return Int(repInt(ti, ai))
	case KBool:
		return Bool(true)
	case KList:
		return List(ti.Name+"."+ai.Name+"-1", ti.Name+"."+ai.Name+"-2")
	default:
		return Map("k1-"+ai.Name, ti.Name+" v1", "k2-"+ai.Name, ti.Name+" v2")
	}
}

// DefaultBody builds a body of type ti: all required attributes, plus the optional
// attributes and blocks for which want(name) is true (repeated blocks: multi copies).
func (g *Gen) DefaultBody(ti *TypeInfo, want func(name string) bool, multi int) *Body {
	b := &Body{}
	for i := range ti.Attrs {
		ai := &ti.Attrs[i]
		if !ai.Optional || (want != nil && want(ai.Name)) {
			b.AddAttr(ai.Name, repValue(ti, ai))
		}
	}
	for i := range ti.Blocks {
		bi := &ti.Blocks[i]
		if want == nil || !want(bi.Name) {
			continue
		}
		n := 1
		if bi.Multi {
			n = multi
		}
		for k := 0; k < n; k++ {
			g.addDefaultBlock(b, bi, nil, k)
		}
	}
	return b
}

func (g *Gen) addDefaultBlock(parent *Body, bi *BlockInfo, body *Body, k int) *Block {
	if body == nil {
		body = g.DefaultBody(bi.Type, nil, 1)
	}
	var labels []string
	for _, l := range bi.Type.Labels {
		labels = append(labels, fmt.Sprintf("%s-%s-%d", bi.Name, l.Name, k))
	}
	return parent.AddBlock(bi.Name, body, labels...)
}

// FullBody: everything present, recursively; repeated blocks twice.
func (g *Gen) FullBody(ti *TypeInfo) *Body {
	b := &Body{}
	for i := range ti.Attrs {
		ai := &ti.Attrs[i]
		b.AddAttr(ai.Name, repValue(ti, ai))
	}
	for i := range ti.Blocks {
		bi := &ti.Blocks[i]
		n := 1
		if bi.Multi {
			n = 2
		}
		for k := 0; k < n; k++ {
			g.addDefaultBlock(b, bi, g.FullBody(bi.Type), k)
		}
	}
	return b
}

// Wrap puts a body of type ti at its place below the root: every ancestor gets its
// required attributes.  It returns the root document.
func (g *Gen) Wrap(ti *TypeInfo, body *Body) *Body {
	path := g.S.Path[ti.Name]
	root := &Body{}
	cur, curT := root, g.S.Root
	for i, name := range path {
		bi := curT.Block(name)
		var nb *Body
		if i == len(path)-1 {
			nb = body
		} else {
			nb = g.DefaultBody(bi.Type, nil, 1)
		}
		g.addDefaultBlock(cur, bi, nb, 0)
		cur, curT = nb, bi.Type
	}
	if len(path) == 0 {
		return body
	}
	return root
}

func (g *Gen) mustExpect(doc *Body) *profile.HavocConfig {
	cfg, err := g.S.Expected(doc)
	if err != nil {
		panic("profilegen: generated an invalid document: " + err.Error())
	}
	return cfg
}

func (g *Gen) valid(part, where string, doc *Body, st Style, variant string) *Case {
	pr := Print(doc, st)
	return &Case{Part: part, Where: where, Src: pr.Src, Want: g.mustExpect(doc), Variant: variant}
}

// ---- styles ----

var styleDims = []struct {
	name string
	n    int
	set  func(st *Style, v int)
}{
	{"indent", 3, func(st *Style, v int) { st.Indent = []string{"    ", "\t", ""}[v] }},
	{"eq", 3, func(st *Style, v int) { st.Eq = []string{" = ", "=", "   =\t"}[v] }},
	{"blank", 3, func(st *Style, v int) { st.BlankLines = v }},
	{"comments", NCommentKinds, func(st *Style, v int) { st.Comments = v }},
	{"list", 3, func(st *Style, v int) { st.ListLayout = v }},
	{"map", 3, func(st *Style, v int) { st.MapLayout = v }},
	{"bare", 2, func(st *Style, v int) { st.BareLabels = v == 1 }},
	{"noeol", 2, func(st *Style, v int) { st.NoFinalEOL = v == 1 }},
	{"oneline", 2, func(st *Style, v int) { st.OneLineSolo = v == 1 }},
}

type namedStyle struct {
	Name string
	St   Style
}

// Styles enumerates layouts: every combination of the style dimensions that deviates
// from the default in at most maxDev dimensions (maxDev < 0: the full product).
func Styles(maxDev int) []namedStyle {
	var out []namedStyle
	choice := make([]int, len(styleDims))
	var rec func(d, dev int)
	rec = func(d, dev int) {
		if d == len(styleDims) {
			st := DefaultStyle
			var nm []string
			for i, c := range choice {
				styleDims[i].set(&st, c)
				if c != 0 {
					nm = append(nm, fmt.Sprintf("%s=%d", styleDims[i].name, c))
				}
			}
			out = append(out, namedStyle{strings.Join(nm, ","), st})
			return
		}
		for v := 0; v < styleDims[d].n; v++ {
			nd := dev
			if v != 0 {
				nd++
			}
			if maxDev >= 0 && nd > maxDev {
				continue
			}
			choice[d] = v
			rec(d+1, nd)
		}
		choice[d] = 0
	}
	rec(0, 0)
	return out
}

var busyStyle = Style{Indent: "\t", Eq: "=", BlankLines: 2, Comments: CAll, ListLayout: 2, MapLayout: 1, BareLabels: true}

// ---- part A: presence combinations ----

func (g *Gen) presenceJobs() []Job {
	var jobs []Job
	styles := []namedStyle{{"default", DefaultStyle}, {"busy", busyStyle}}
	for _, ti := range g.S.Types {
		ti := ti
		var opt []string
		for _, a := range ti.Attrs {
			if a.Optional {
				opt = append(opt, a.Name)
			}
		}
		for _, b := range ti.Blocks {
			opt = append(opt, b.Name)
		}
		n := len(opt)
		const chunk = 256
		for lo := 0; lo < 1<<n; lo += chunk {
			lo := lo
			hi := lo + chunk
			if hi > 1<<n {
				hi = 1 << n
			}
			jobs = append(jobs, Job{fmt.Sprintf("presence/%s/%d", ti.Name, lo), func(emit func(*Case)) {
				for mask := lo; mask < hi; mask++ {
					want := func(name string) bool {
						for i, o := range opt {
							if o == name {
								return mask&(1<<i) != 0
							}
						}
						return false
					}
					for multi := 1; multi <= 2; multi++ {
						if multi == 2 && !hasMultiSelected(ti, want) {
							continue
						}
						doc := g.Wrap(ti, g.DefaultBody(ti, want, multi))
						for _, st := range styles {
							emit(g.valid("presence", ti.Name, doc, st.St, fmt.Sprintf("mask=%#x multi=%d style=%s", mask, multi, st.Name)))
						}
					}
				}
			}})
		}
	}
	return jobs
}

func hasMultiSelected(ti *TypeInfo, want func(string) bool) bool {
	for _, b := range ti.Blocks {
		if b.Multi && want(b.Name) {
			return true
		}
	}
	return false
}

// ---- part B: every value of every attribute's domain, in every spelling ----

// replaceAttr returns a copy of body with attribute name set to v (added at the end when
// it was absent).
func setAttr(body *Body, name string, v Value) {
	if a := body.FindAttr(name); a != nil {
		a.V = v
		return
	}
	body.AddAttr(name, v)
}

func (g *Gen) valueJobs() []Job {
	var jobs []Job
	ints := IntDomain(g.Thorough)
	for _, ti := range g.S.Types {
		ti := ti
		for ai := range ti.Attrs {
			a := &ti.Attrs[ai]
			jobs = append(jobs, Job{"value/" + ti.Name + "." + a.Name, func(emit func(*Case)) {
				where := ti.Name + "." + a.Name
				// two surroundings: only the required attributes / everything present
				for ctx := 0; ctx < 2; ctx++ {
					mk := func() (*Body, *Body) {
						var body *Body
						if ctx == 0 {
							body = g.DefaultBody(ti, nil, 1)
						} else {
							body = g.FullBody(ti)
						}
						return g.Wrap(ti, body), body
					}
					one := func(v Value, str string, sp Spelling, role string, variant string) {
						doc, body := mk()
						setAttr(body, a.Name, v)
						c := g.valid("value", where, doc, DefaultStyle, fmt.Sprintf("ctx=%d %s", ctx, variant))
						if role != "" {
							c.HasStr, c.Str, c.Sp, c.Role = true, str, sp, role
						}
						emit(c)
					}
					switch a.Kind {
					case KString:
						for _, s := range StringDomain {
							for _, sp := range DistinctSpellings(s, ExprSpellings) {
								one(StrSp(s, sp), s, sp, "attr", "spelling="+sp.String())
							}
						}
					case KInt:
						for _, i := range ints {
							one(Int(i), "", 0, "", "number")
							one(IntStr(i), "", 0, "", "number-as-string")
						}
						// the other decimal spellings of a number (leading zeros, .0, an exponent), bare
						// and quoted, for the values where a reading in another base or through a binary
						// fraction would show
						for _, i := range []int64{0, 7, 8, 10, 15, 443, 40056, 65535, -8, -443, 1<<53 + 1, 1<<63 - 1, -1 << 63} {
							for _, f := range NumForms()[1:] {
								one(IntForm(i, f, false), "", 0, "", "number/"+f.String())
								one(IntForm(i, f, true), "", 0, "", "number-as-string/"+f.String())
							}
						}
					case KBool:
						one(Bool(true), "", 0, "", "true")
						one(Bool(false), "", 0, "", "false")
					case KList:
						// sizes 0..3 (4 in thorough) of plain elements
						maxN := 3
						if g.Thorough {
							maxN = 5
						}
						for n := 0; n <= maxN; n++ {
							var el []string
							for k := 0; k < n; k++ {
								el = append(el, fmt.Sprintf("e%d", k))
							}
							one(List(el...), "", 0, "", fmt.Sprintf("size=%d", n))
						}
						one(List("same", "same", "same"), "", 0, "", "equal elements")
						// every domain string as the only / the middle element, in every spelling
						for _, s := range StringDomain {
							for _, sp := range DistinctSpellings(s, ExprSpellings) {
								v := Value{Kind: VList, L: []Value{StrSp(s, sp)}}
								one(v, s, sp, "list", "only spelling="+sp.String())
								v = Value{Kind: VList, L: []Value{Str("first"), StrSp(s, sp), Str("last")}}
								one(v, s, sp, "list", "middle spelling="+sp.String())
							}
						}
					case KMap:
						maxN := 3
						if g.Thorough {
							maxN = 5
						}
						for n := 0; n <= maxN; n++ {
							var kv []string
							for k := 0; k < n; k++ {
								kv = append(kv, fmt.Sprintf("key%d", k), fmt.Sprintf("val%d", k))
							}
							one(Map(kv...), "", 0, "", fmt.Sprintf("size=%d", n))
						}
						for _, s := range StringDomain {
							for _, sp := range DistinctSpellings(s, ExprSpellings) {
								v := Value{Kind: VMap, M: []KV{{K: "before", V: Str("1")}, {K: "k", V: StrSp(s, sp)}, {K: "zafter", V: Str("2")}}}
								one(v, s, sp, "mapval", "value spelling="+sp.String())
							}
							for _, sp := range DistinctSpellings(s, append([]Spelling{SpBare}, QuotedSpellings...)) {
								v := Value{Kind: VMap, M: []KV{{K: "before", V: Str("1")}, {K: s, KSp: sp, V: Str("v")}, {K: "zafter", V: Str("2")}}}
								one(v, s, sp, "mapkey", "key spelling="+sp.String())
							}
						}
					}
				}
			}})
		}
		// labels
		if len(ti.Labels) > 0 {
			jobs = append(jobs, Job{"value/" + ti.Name + ".label", func(emit func(*Case)) {
				for _, s := range StringDomain {
					for _, sp := range DistinctSpellings(s, append([]Spelling{SpBare}, QuotedSpellings...)) {
						doc := g.Wrap(ti, g.DefaultBody(ti, nil, 1))
						blk := findFirstBlockOfType(doc, g.S, ti)
						blk.Labels[0] = Label{S: s, Sp: sp}
						c := g.valid("value", ti.Name+".label", doc, DefaultStyle, "label spelling="+sp.String())
						c.HasStr, c.Str, c.Sp, c.Role = true, s, sp, "label"
						emit(c)
					}
				}
			}})
		}
	}
	return jobs
}

// findFirstBlockOfType walks the wrap path to the block of type ti.
func findFirstBlockOfType(doc *Body, s *Schema, ti *TypeInfo) *Block {
	cur := doc
	var blk *Block
	for _, name := range s.Path[ti.Name] {
		blk = cur.FindBlocks(name)[0]
		cur = blk.Body
	}
	return blk
}

// ---- part C: repeated blocks ----

func (g *Gen) repeatJobs() []Job {
	var jobs []Job
	for _, ti := range g.S.Types {
		ti := ti
		var multis []*BlockInfo
		for i := range ti.Blocks {
			if ti.Blocks[i].Multi {
				multis = append(multis, &ti.Blocks[i])
			}
		}
		if len(multis) == 0 {
			continue
		}
		maxN := 3
		if g.Thorough {
			maxN = 4
		}
		jobs = append(jobs, Job{"repeat/" + ti.Name, func(emit func(*Case)) {
			counts := make([]int, len(multis))
			var rec func(d int)
			rec = func(d int) {
				if d < len(multis) {
					for n := 0; n <= maxN; n++ {
						counts[d] = n
						rec(d + 1)
					}
					return
				}
				// sequence of block kinds in several orders
				var grouped []int
				for k, n := range counts {
					for i := 0; i < n; i++ {
						grouped = append(grouped, k)
					}
				}
				orders := map[string][]int{"grouped": grouped, "reversed": reverseInts(grouped), "round-robin": roundRobin(counts)}
				total := len(grouped)
				if total <= 6 || (g.Thorough && total <= 8) {
					// every distinct interleaving
					for i, o := range multisetPerms(counts) {
						orders[fmt.Sprintf("perm%04d", i)] = o
					}
				}
				names := make([]string, 0, len(orders))
				for n := range orders {
					names = append(names, n)
				}
				sortStrings(names)
				seen := map[string]bool{}
				for _, on := range names {
					o := orders[on]
					key := fmt.Sprint(o)
					if seen[key] {
						continue
					}
					seen[key] = true
					body := g.DefaultBody(ti, nil, 1)
					idx := make([]int, len(multis))
					for _, k := range o {
						bi := multis[k]
						nb := g.DefaultBody(bi.Type, nil, 1)
						// make every instance distinguishable
						for ai := range bi.Type.Attrs {
							a := &bi.Type.Attrs[ai]
							if a.Kind == KString && !a.Optional {
								setAttr(nb, a.Name, Str(fmt.Sprintf("%s#%d.%s", bi.Name, idx[k], a.Name)))
							}
						}
						g.addDefaultBlock(body, bi, nb, idx[k])
						idx[k]++
					}
					doc := g.Wrap(ti, body)
					emit(g.valid("repeat", ti.Name, doc, DefaultStyle, fmt.Sprintf("counts=%v order=%s", counts, on)))
				}
			}
			rec(0)
		}})
	}
	return jobs
}

func reverseInts(a []int) []int {
	out := make([]int, len(a))
	for i, v := range a {
		out[len(a)-1-i] = v
	}
	return out
}

func roundRobin(counts []int) []int {
	left := append([]int(nil), counts...)
	var out []int
	for {
		any := false
		for k := range left {
			if left[k] > 0 {
				left[k]--
				out = append(out, k)
				any = true
			}
		}
		if !any {
			return out
		}
	}
}

func multisetPerms(counts []int) [][]int {
	left := append([]int(nil), counts...)
	total := 0
	for _, c := range counts {
		total += c
	}
	var out [][]int
	cur := make([]int, 0, total)
	var rec func()
	rec = func() {
		if len(cur) == total {
			out = append(out, append([]int(nil), cur...))
			return
		}
		for k := range left {
			if left[k] > 0 {
				left[k]--
				cur = append(cur, k)
				rec()
				cur = cur[:len(cur)-1]
				left[k]++
			}
		}
	}
	rec()
	return out
}

// ---- part D: item order and layout ----

func permutations(n int) [][]int {
	var out [][]int
	p := make([]int, n)
	for i := range p {
		p[i] = i
	}
	var rec func(k int)
	rec = func(k int) {
		if k == n {
			out = append(out, append([]int(nil), p...))
			return
		}
		for i := k; i < n; i++ {
			p[k], p[i] = p[i], p[k]
			rec(k + 1)
			p[k], p[i] = p[i], p[k]
		}
	}
	rec(0)
	return out
}

// orders: all permutations up to maxFull items; beyond: every rotation, the reversal,
// every adjacent transposition and every "move one item to the front / to the end".
func orders(n, maxFull int) [][]int {
	if n <= maxFull {
		return permutations(n)
	}
	id := make([]int, n)
	for i := range id {
		id[i] = i
	}
	var out [][]int
	seen := map[string]bool{}
	add := func(p []int) {
		k := fmt.Sprint(p)
		if !seen[k] {
			seen[k] = true
			out = append(out, append([]int(nil), p...))
		}
	}
	for r := 0; r < n; r++ {
		add(append(append([]int(nil), id[r:]...), id[:r]...))
	}
	add(reverseInts(id))
	for i := 0; i+1 < n; i++ {
		p := append([]int(nil), id...)
		p[i], p[i+1] = p[i+1], p[i]
		add(p)
	}
	for i := 0; i < n; i++ {
		var front, back []int
		front = append(front, i)
		for j := 0; j < n; j++ {
			if j != i {
				front = append(front, j)
				back = append(back, j)
			}
		}
		back = append(back, i)
		add(front)
		add(back)
	}
	return out
}

func (g *Gen) orderJobs() []Job {
	var jobs []Job
	maxFull := 5
	if g.Thorough {
		maxFull = 7
	}
	styles := []namedStyle{{"default", DefaultStyle}, {"busy", busyStyle}}
	for _, ti := range g.S.Types {
		ti := ti
		jobs = append(jobs, Job{"order/" + ti.Name, func(emit func(*Case)) {
			base := g.FullBody(ti)
			for _, o := range orders(len(base.Items), maxFull) {
				body := &Body{}
				full := g.FullBody(ti)
				for _, i := range o {
					body.Items = append(body.Items, full.Items[i])
				}
				doc := g.Wrap(ti, body)
				for _, st := range styles {
					emit(g.valid("order", ti.Name, doc, st.St, fmt.Sprintf("order=%v style=%s", o, st.Name)))
				}
			}
		}})
	}
	return jobs
}

// layoutDocs: the documents every layout is applied to.
func (g *Gen) layoutDocs() []namedDoc {
	var docs []namedDoc
	docs = append(docs, g.Bases()...)
	for _, ti := range g.S.Types {
		docs = append(docs, namedDoc{"full-" + ti.Name, g.Wrap(ti, g.FullBody(ti))})
	}
	// a document whose strings are heredocs and specials, so that comments and blank
	// lines meet them
	sv := g.S.Type("ServiceConfig")
	if sv != nil && sv.Attr("Endpoint") != nil && sv.Attr("Password") != nil {
		b := &Body{}
		b.AddAttr("Endpoint", StrSp("line one\n  line ${two}\n", SpHeredoc))
		b.AddAttr("Password", StrSp("a#b // c /* d */ \"q\" %{x}", SpRaw))
		docs = append(docs, namedDoc{"heredoc-service", g.Wrap(sv, b)})
		b = &Body{}
		b.AddAttr("Password", StrSp("anchor\n  in\n", SpHeredocFlush))
		b.AddAttr("Endpoint", StrSp("x\n", SpHeredocFlush))
		docs = append(docs, namedDoc{"flush-service", g.Wrap(sv, b)})
	}
	return docs
}

func (g *Gen) layoutJobs() []Job {
	maxDev := 2
	if g.Thorough {
		maxDev = -1
	}
	styles := Styles(maxDev)
	var jobs []Job
	for _, nd := range g.layoutDocs() {
		nd := nd
		const chunk = 512
		for lo := 0; lo < len(styles); lo += chunk {
			lo := lo
			hi := lo + chunk
			if hi > len(styles) {
				hi = len(styles)
			}
			jobs = append(jobs, Job{fmt.Sprintf("layout/%s/%d", nd.Name, lo), func(emit func(*Case)) {
				want := g.mustExpect(nd.Doc)
				for _, st := range styles[lo:hi] {
					pr := Print(nd.Doc, st.St)
					emit(&Case{Part: "layout", Where: nd.Name, Src: pr.Src, Want: want, Variant: "style=" + st.Name})
				}
			}})
		}
	}
	return jobs
}

// ---- part E: every string over the alphabet, every spelling, every role ----

type strRole struct {
	name     string
	pre, suf string // file text around the spelled string
	set      func(cfg *profile.HavocConfig, s string)
	cfg      func() *profile.HavocConfig
	quoted   bool // only quoted spellings (labels, map keys)
}

const hole = "@@HOLE@@"

func (g *Gen) strRoles() []strRole {
	var roles []strRole
	split := func(doc *Body) (string, string) {
		src := string(Print(doc, DefaultStyle).Src)
		i := strings.Index(src, hole)
		if i < 0 || strings.Count(src, hole) != 1 {
			panic("profilegen: hole not found")
		}
		return src[:i], src[i+len(hole):]
	}
	// locate one string attribute, one list, one map, one label anywhere in the schema,
	// preferring small required ones (fixed choice: first in sorted type order).
	var strT, listT, mapT, labT *TypeInfo
	var strA, listA, mapA *AttrInfo
	for _, ti := range g.S.Types {
		for i := range ti.Attrs {
			a := &ti.Attrs[i]
			switch {
			case a.Kind == KString && !a.Optional && (strT == nil || (ti.Name == "ServiceConfig" && strT.Name != "ServiceConfig")):
				strT, strA = ti, a
			case a.Kind == KList && listT == nil:
				listT, listA = ti, a
			case a.Kind == KMap && mapT == nil:
				mapT, mapA = ti, a
			}
		}
		if len(ti.Labels) > 0 && labT == nil {
			labT = ti
		}
	}
	fieldSetter := func(ti *TypeInfo, apply func(v reflect.Value, s string)) func(cfg *profile.HavocConfig, s string) {
		path := g.S.Path[ti.Name]
		return func(cfg *profile.HavocConfig, s string) {
			v := reflect.ValueOf(cfg).Elem()
			t := g.S.Root
			for _, name := range path {
				bi := t.Block(name)
				f := v.Field(bi.Field)
				if bi.Multi {
					f = f.Index(0)
				}
				if f.Kind() == reflect.Ptr {
					f = f.Elem()
				}
				v, t = f, bi.Type
			}
			apply(v, s)
		}
	}
	if strT != nil {
		body := g.DefaultBody(strT, nil, 1)
		setAttr(body, strA.Name, Raw(hole))
		doc := g.Wrap(strT, body)
		pre, suf := split(doc)
		setAttr(body, strA.Name, Str(""))
		fi := strA.Field
		roles = append(roles, strRole{name: "attr", pre: pre, suf: suf,
			cfg: func() *profile.HavocConfig { return g.mustExpect(doc) },
			set: fieldSetter(strT, func(v reflect.Value, s string) { v.Field(fi).SetString(s) })})
	}
	if listT != nil {
		body := g.DefaultBody(listT, nil, 1)
		setAttr(body, listA.Name, Value{Kind: VList, L: []Value{Str("first"), Raw(hole), Str("last")}})
		doc := g.Wrap(listT, body)
		st := DefaultStyle
		st.ListLayout = 1
		src := string(Print(doc, st).Src)
		i := strings.Index(src, hole)
		pre, suf := src[:i], "\n"+src[i+len(hole):] // newline: a heredoc marker may precede the comma
		setAttr(body, listA.Name, List("first", "", "last"))
		fi := listA.Field
		roles = append(roles, strRole{name: "list", pre: pre, suf: suf,
			cfg: func() *profile.HavocConfig { return g.mustExpect(doc) },
			set: fieldSetter(listT, func(v reflect.Value, s string) { v.Field(fi).Index(1).SetString(s) })})
	}
	if mapT != nil {
		body := g.DefaultBody(mapT, nil, 1)
		setAttr(body, mapA.Name, Value{Kind: VMap, M: []KV{{K: "before", V: Str("1")}, {K: "k", V: Raw(hole)}, {K: "zafter", V: Str("2")}}})
		doc := g.Wrap(mapT, body)
		pre, suf := split(doc)
		setAttr(body, mapA.Name, Map("before", "1", "k", "", "zafter", "2"))
		fi := mapA.Field
		roles = append(roles, strRole{name: "mapval", pre: pre, suf: suf,
			cfg: func() *profile.HavocConfig { return g.mustExpect(doc) },
			set: fieldSetter(mapT, func(v reflect.Value, s string) {
				v.Field(fi).SetMapIndex(reflect.ValueOf("k"), reflect.ValueOf(s))
			})})
		// key
		body2 := g.DefaultBody(mapT, nil, 1)
		setAttr(body2, mapA.Name, Value{Kind: VMap, M: []KV{{K: hole, KSp: spVerbatim, V: Str("the value")}}})
		doc2 := g.Wrap(mapT, body2)
		pre2, suf2 := split(doc2)
		setAttr(body2, mapA.Name, Map("", "the value"))
		roles = append(roles, strRole{name: "mapkey", pre: pre2, suf: suf2, quoted: true,
			cfg: func() *profile.HavocConfig { return g.mustExpect(doc2) },
			set: fieldSetter(mapT, func(v reflect.Value, s string) {
				m := reflect.MakeMap(v.Field(fi).Type())
				m.SetMapIndex(reflect.ValueOf(s), reflect.ValueOf("the value"))
				v.Field(fi).Set(m)
			})})
	}
	if labT != nil {
		doc := g.Wrap(labT, g.DefaultBody(labT, nil, 1))
		blk := findFirstBlockOfType(doc, g.S, labT)
		blk.Labels[0] = Label{Raw: hole}
		pre, suf := split(doc)
		blk.Labels[0] = Label{S: ""}
		fi := labT.Labels[0].Field
		roles = append(roles, strRole{name: "label", pre: pre, suf: suf, quoted: true,
			cfg: func() *profile.HavocConfig { return g.mustExpect(doc) },
			set: fieldSetter(labT, func(v reflect.Value, s string) { v.Field(fi).SetString(s) })})
	}
	return roles
}

// StringBounds gives, per role, the maximum length of the exhaustive enumeration.
func (g *Gen) StringBounds() map[string]int {
	if g.Thorough {
		return map[string]int{"attr": 5, "list": 4, "mapval": 4, "mapkey": 4, "label": 4}
	}
	return map[string]int{"attr": 4, "list": 3, "mapval": 3, "mapkey": 3, "label": 3}
}

func (g *Gen) AlphabetInUse() []string {
	if g.Thorough {
		return AlphabetThorough
	}
	return Alphabet
}

func (g *Gen) stringJobs() []Job {
	var jobs []Job
	alpha := g.AlphabetInUse()
	bounds := g.StringBounds()
	for _, role := range g.strRoles() {
		role := role
		maxLen := bounds[role.name]
		spellings := ExprSpellings
		if role.quoted {
			spellings = QuotedSpellings
		}
		// one job per first symbol (and one for the empty string)
		for first := -1; first < len(alpha); first++ {
			first := first
			jobs = append(jobs, Job{fmt.Sprintf("strings/%s/%d", role.name, first), func(emit func(*Case)) {
				want := role.cfg()
				var rec func(s string, n int)
				do := func(s string) {
					for _, sp := range DistinctSpellings(s, spellings) {
						var text string
						var toks []Tok
						switch sp {
						case SpHeredoc:
							text, toks = SpellHeredoc(s, false, "")
						case SpHeredocFlush:
							text, toks = SpellHeredoc(s, true, "      ")
						default:
							text, toks = SpellQuoted(s, sp)
						}
						role.set(want, s)
						// the expected configuration is shared by the cases of this job and
						// changes with each; the consumer checks a case before asking for the next
						emit(&Case{Part: "strings", Where: role.name, Src: []byte(role.pre + text + role.suf), Want: want,
							HasStr: true, Str: s, Sp: sp, Role: role.name, StrToks: toks, Variant: "spelling=" + sp.String()})
					}
				}
				rec = func(s string, n int) {
					do(s)
					if n == maxLen {
						return
					}
					for _, a := range alpha {
						rec(s+a, n+1)
					}
				}
				if first < 0 {
					do("")
					return
				}
				if maxLen >= 1 {
					rec(alpha[first], 1)
				}
			}})
		}
	}
	return jobs
}

// ---- part B2: two string values next to each other, every pair of spellings ----

func (g *Gen) pairJobs() []Job {
	var ti *TypeInfo
	var a1, a2 *AttrInfo
	for _, t := range g.S.Types {
		var strs []*AttrInfo
		for i := range t.Attrs {
			if t.Attrs[i].Kind == KString {
				strs = append(strs, &t.Attrs[i])
			}
		}
		if len(strs) >= 2 && (ti == nil || t.Name == "ServiceConfig") {
			ti, a1, a2 = t, strs[0], strs[1]
		}
	}
	if ti == nil {
		return nil
	}
	pick := func(s string) []Spelling {
		sp := DistinctSpellings(s, ExprSpellings)
		if g.Thorough || len(sp) <= 2 {
			return sp
		}
		return []Spelling{sp[0], sp[len(sp)-1]}
	}
	var jobs []Job
	for _, s1 := range StringDomain {
		s1 := s1
		jobs = append(jobs, Job{fmt.Sprintf("pairs/%s/%q", ti.Name, truncate(s1, 12)), func(emit func(*Case)) {
			for _, s2 := range StringDomain {
				for _, sp1 := range pick(s1) {
					for _, sp2 := range pick(s2) {
						body := g.DefaultBody(ti, nil, 1)
						setAttr(body, a1.Name, StrSp(s1, sp1))
						setAttr(body, a2.Name, StrSp(s2, sp2))
						doc := g.Wrap(ti, body)
						c := g.valid("pairs", ti.Name+"."+a1.Name+"+"+a2.Name, doc, DefaultStyle, "spellings="+sp1.String()+"+"+sp2.String())
						c.HasStr, c.Str, c.Sp, c.Role = true, s1, sp1, "attr"
						c.HasStr2, c.Str2, c.Sp2, c.Path2 = true, s2, sp2, a2.GoName
						emit(c)
					}
				}
			}
		}})
	}
	return jobs
}

func truncate(s string, n int) string {
	if len(s) > n {
		return s[:n]
	}
	return s
}

// Jobs returns the whole enumeration of valid profiles and single-fault profiles.
func (g *Gen) Jobs() []Job {
	// the biggest jobs first, so that the workers finish together
	var jobs []Job
	jobs = append(jobs, g.stringJobs()...)
	jobs = append(jobs, g.layoutJobs()...)
	jobs = append(jobs, g.valueJobs()...)
	jobs = append(jobs, g.pairJobs()...)
	jobs = append(jobs, g.presenceJobs()...)
	jobs = append(jobs, g.faultJobs()...)
	jobs = append(jobs, g.orderJobs()...)
	jobs = append(jobs, g.repeatJobs()...)
	jobs = append(jobs, g.sizeJobs()...)
	return jobs
}
