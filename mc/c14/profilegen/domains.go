package profilegen

import (
	"sort"
	"strings"
)

// StringDomain: the values every string attribute / list element / map key / map value /
// label is exercised with.  Each one is there for a reason (given after it).
var StringDomain = []string{
	"",                                   // empty
	"a",                                  // plain
	"é",                                  // two-byte UTF-8
	"日本 🙂",                               // three- and four-byte UTF-8
	"\"q\"",                              // quotes
	"b\\s",                               // backslash
	"C:\\Windows\\System32\\notepad.exe", // the shipped profiles' backslash paths
	"end\\",                              // backslash before the closing quote
	"l\nb",                               // inner newline, no final newline (no heredoc)
	"l\nb\n",                             // heredoc-able
	"  two\n    indented\nanchor\n\nafter blank\n", // flush-heredoc-able, mixed indentation, blank line
	"EOT\n",       // content equal to the usual heredoc marker
	" EOF\nEOT\n", // ... to two of them, one indented
	"\n",          // just a newline
	"r\rn\r\n",    // carriage returns (escapes only)
	"t\tb",        // tab
	"${x}",        // interpolation marker
	"%{y}",        // directive marker
	"%{ if true }a%{ endif }",
	"$${",                           // already-doubled marker (must stay doubled)
	"%%{",                           //
	"$",                             // lone dollar / percent, at the end
	"100%",                          //
	"$$",                            //
	"a$",                            //
	"${",                            // unterminated marker
	"$\\{",                          // marker split by a backslash
	"$\"{",                          //
	"\x01",                          // control character
	"\x01a",                         // control character followed by a hexadecimal digit
	"\x01g",                         // ... by a letter that is not one
	"é0",                            // non-ASCII followed by a hexadecimal digit
	"\x7f",                          // DEL
	"a\x00b",                        // NUL
	"007",                           // must stay a string
	"-1",                            //
	"true",                          // keyword-like
	"null",                          //
	"a#b",                           // comment openers inside a string
	"a//b",                          //
	"/*c*/",                         //
	"  lead",                        // leading / trailing blanks
	"trail  ",                       //
	"{}",                            // braces, brackets, equals
	"[a=b,c:d]",                     //
	"e\u0301",                       // decomposed: e + combining acute (not NFC)
	strings.Repeat("a", 200),        // long
	strings.Repeat("é\"\\\n${", 40), // long with every special
}

// IntDomain returns the ints every int attribute is exercised with.
func IntDomain(thorough bool) []int64 {
	set := map[int64]bool{}
	span := int64(130)
	if thorough {
		span = 1100
	}
	for i := -span; i <= span; i++ {
		set[i] = true
	}
	for k := uint(0); k < 63; k++ {
		p := int64(1) << k
		for _, v := range []int64{p, p - 1, p + 1, -p, -p - 1, -p + 1} {
			set[v] = true
		}
	}
	set[1<<63-1] = true
	set[-1<<63] = true
	set[40056] = true
	set[65535] = true
	out := make([]int64, 0, len(set))
	for v := range set {
		out = append(out, v)
	}
	sort.Slice(out, func(i, j int) bool { return out[i] < out[j] })
	return out
}

// Alphabet of the exhaustive string enumeration: every string over these symbols up to
// a length bound is written in every spelling.
//
//	g   a letter that is not a hexadecimal digit
//	4   a hexadecimal digit (matters after \xHH)
//	"   \   the two characters that need a named escape
//	$ % { }   the template marker characters
//	\n  newline (named escape / heredoc line structure)
//	\t  a control character that may also be raw
//	' ' blank (heredoc indentation)
//	é   non-ASCII
//	#   comment opener
var Alphabet = []string{"g", "4", "\"", "\\", "$", "%", "{", "}", "\n", "\t", " ", "é", "#"}

// AlphabetThorough adds the carriage return and a control character without a named
// escape.
var AlphabetThorough = []string{"g", "4", "\"", "\\", "$", "%", "{", "}", "\n", "\t", " ", "é", "#", "\r", "\x01"}
