// Package explore holds the two search engines every harness uses:
//
//   - Tree: deviation-bounded stateless DFS over a choice tree (inputs, environment
//     answers, faults, thread schedules).  A harness body is a deterministic function
//     of a Chooser; choice 0 is the default; every non-default choice costs what the
//     harness says it costs (1 by default).
//   - BFS: explicit-state breadth-first search over operation histories; a state is
//     the history that reaches it, de-duplicated by a canonical key the harness
//     computes from the real objects after replaying that history.
package explore

import (
	"fmt"
	"time"
)

// Chooser is handed to a harness body.
type Chooser struct {
	prefix  []int
	pos     int
	choices []int
	ns      []int
	costs   [][]int // cost of each alternative at each point (nil = 1 for alt>0)
	labels  []string
	err     error
}

// Choose returns a value in [0,n).  Replays the prefix, then 0.
func (c *Chooser) Choose(n int, label string) int {
	return c.ChooseCost(n, label, nil)
}

// ChooseCost is Choose with an explicit per-alternative deviation cost
// (costs[0] is ignored and taken as 0).  Used by the scheduler: switching away from
// a thread that is still enabled costs 1, from a blocked/finished one 0.
func (c *Chooser) ChooseCost(n int, label string, costs []int) int {
	if n <= 0 {
		panic("explore: Choose with n<=0 at " + label)
	}
	v := 0
	if c.pos < len(c.prefix) {
		v = c.prefix[c.pos]
		if v >= n {
			if c.err == nil {
				c.err = fmt.Errorf("explore: prefix choice %d out of range %d at point %d (%s): harness is not deterministic", v, n, c.pos, label)
			}
			v = 0
		}
	}
	c.pos++
	c.choices = append(c.choices, v)
	c.ns = append(c.ns, n)
	if costs != nil {
		cc := make([]int, len(costs))
		copy(cc, costs)
		c.costs = append(c.costs, cc)
	} else {
		c.costs = append(c.costs, nil)
	}
	c.labels = append(c.labels, label)
	return v
}

// Choices returns the choices made so far (the replay artefact).
func (c *Chooser) Choices() []int { return append([]int(nil), c.choices...) }
func (c *Chooser) Labels() []string { return append([]string(nil), c.labels...) }

func (c *Chooser) costAt(i, alt int) int {
	if alt == 0 {
		return 0
	}
	if c.costs[i] != nil {
		return c.costs[i][alt]
	}
	return 1
}

// Tree runs body for every choice sequence with total cost <= bound.
type Tree struct {
	Bound    int
	Deadline time.Time // zero = none
	// stats
	Executions int64
	Points     int64
	MaxDepth   int
	Capped     bool
	Err        error
	rootOnly   bool
}

// Run explores.  body must be deterministic given the chooser.  check is called after
// each execution with the chooser (for choices/labels).
func (t *Tree) Run(body func(c *Chooser)) {
	t.explore(nil, 0, body)
}

// RunShard explores shard i of n of the whole tree: every shard runs the root execution
// (the all-default schedule; only shard 0 counts it), the root's children (one deviation
// at one position) are dealt round-robin to the shards, and each shard explores the whole
// subtree of its children.  The union over i = 0..n-1 is exactly what Run explores.
func (t *Tree) RunShard(shard, n int, body func(c *Chooser)) {
	if n <= 1 {
		t.Run(body)
		return
	}
	c := &Chooser{}
	t.rootOnly = shard != 0
	body(c)
	t.rootOnly = false
	if shard == 0 {
		t.Executions++
		t.Points += int64(len(c.choices))
	}
	if len(c.choices) > t.MaxDepth {
		t.MaxDepth = len(c.choices)
	}
	if c.err != nil {
		t.Err = c.err
		return
	}
	idx := 0
	for i := 0; i < len(c.choices); i++ {
		for alt := 1; alt < c.ns[i]; alt++ {
			cost := c.costAt(i, alt)
			if cost > t.Bound {
				continue
			}
			idx++
			if idx%n != shard {
				continue
			}
			np := make([]int, i+1)
			copy(np, c.choices[:i])
			np[i] = alt
			t.explore(np, cost, body)
			if t.Err != nil {
				return
			}
		}
	}
}

// RunShard2 is RunShard with the split one level further down.  Every shard runs the root
// execution and every child of the root (each of them is counted by one shard only), and
// the subtrees below the root's children - the grandchildren - are dealt round-robin to the
// shards.  One heavy child of the root no longer makes one heavy shard.  The union over
// i = 0..n-1 is exactly what Run explores.
func (t *Tree) RunShard2(shard, n int, body func(c *Chooser)) {
	if n <= 1 {
		t.Run(body)
		return
	}
	run := func(prefix []int, count bool) *Chooser {
		c := &Chooser{prefix: prefix}
		body(c)
		if count {
			t.Executions++
			t.Points += int64(len(c.choices))
		}
		if len(c.choices) > t.MaxDepth {
			t.MaxDepth = len(c.choices)
		}
		if c.err != nil {
			t.Err = c.err
		} else if len(c.choices) < len(prefix) {
			t.Err = fmt.Errorf("explore: execution made %d choices, shorter than its prefix %d: harness is not deterministic", len(c.choices), len(prefix))
		}
		return c
	}
	root := run(nil, shard == 0)
	if t.Err != nil {
		return
	}
	k1, k2 := 0, 0
	for i := 0; i < len(root.choices); i++ {
		for alt := 1; alt < root.ns[i]; alt++ {
			cost := root.costAt(i, alt)
			if cost > t.Bound {
				continue
			}
			if !t.Deadline.IsZero() && time.Now().After(t.Deadline) {
				t.Capped = true
				return
			}
			np := make([]int, i+1)
			copy(np, root.choices[:i])
			np[i] = alt
			k1++
			c := run(np, k1%n == shard)
			if t.Err != nil {
				return
			}
			for i2 := len(np); i2 < len(c.choices); i2++ {
				for alt2 := 1; alt2 < c.ns[i2]; alt2++ {
					cost2 := cost + c.costAt(i2, alt2)
					if cost2 > t.Bound {
						continue
					}
					k2++
					if k2%n != shard {
						continue
					}
					np2 := make([]int, i2+1)
					copy(np2, c.choices[:i2])
					np2[i2] = alt2
					t.explore(np2, cost2, body)
					if t.Err != nil {
						return
					}
				}
			}
		}
	}
}

// RootOnly reports that the current execution is the root execution of a shard other
// than 0 (it only discovers the children; shard 0 judges it).
func (t *Tree) RootOnly() bool { return t.rootOnly }

// RunFrom explores only the subtree below prefix (sharding).
func (t *Tree) RunFrom(prefix []int, cost int, body func(c *Chooser)) {
	t.explore(prefix, cost, body)
}

func (t *Tree) explore(prefix []int, prefixCost int, body func(c *Chooser)) {
	if t.Err != nil {
		return
	}
	if !t.Deadline.IsZero() && time.Now().After(t.Deadline) {
		t.Capped = true
		return
	}
	c := &Chooser{prefix: prefix}
	body(c)
	t.Executions++
	t.Points += int64(len(c.choices))
	if len(c.choices) > t.MaxDepth {
		t.MaxDepth = len(c.choices)
	}
	if c.err != nil {
		t.Err = c.err
		return
	}
	if len(c.choices) < len(prefix) {
		t.Err = fmt.Errorf("explore: execution made %d choices, shorter than its prefix %d: harness is not deterministic", len(c.choices), len(prefix))
		return
	}
	for i := len(prefix); i < len(c.choices); i++ {
		for alt := 1; alt < c.ns[i]; alt++ {
			cost := prefixCost + c.costAt(i, alt)
			if cost > t.Bound {
				continue
			}
			np := make([]int, i+1)
			copy(np, c.choices[:i])
			np[i] = alt
			t.explore(np, cost, body)
			if t.Err != nil {
				return
			}
		}
	}
}

// Replay runs body once on the given choice list.
func Replay(choices []int, body func(c *Chooser)) (*Chooser, error) {
	c := &Chooser{prefix: choices}
	body(c)
	return c, c.err
}

// ---------------------------------------------------------------------------

// BFS is explicit-state search over histories of operations (ints index an alphabet
// the harness owns).  Step(hist) must build a fresh instance, replay hist, check the
// oracle on the last step, and return the canonical key of the reached state and the
// list of operations enabled there; ok=false prunes (the oracle failed or the op was
// not applicable).
type BFS struct {
	MaxDepth  int
	Deadline  time.Time
	MaxStates int

	States      int64
	Transitions int64
	Depth       int
	Fixpoint    bool
	Capped      bool
}

type StepResult struct {
	Key     string
	Enabled []int
	OK      bool
}

func (b *BFS) Run(step func(hist []int) StepResult) {
	seen := map[string]bool{}
	root := step(nil)
	b.Transitions++
	if !root.OK {
		return
	}
	seen[root.Key] = true
	b.States = 1
	type node struct {
		hist    []int
		enabled []int
	}
	frontier := []node{{nil, root.Enabled}}
	for depth := 0; depth < b.MaxDepth; depth++ {
		var next []node
		for _, n := range frontier {
			for _, op := range n.enabled {
				if !b.Deadline.IsZero() && time.Now().After(b.Deadline) {
					b.Capped = true
					return
				}
				h := make([]int, len(n.hist)+1)
				copy(h, n.hist)
				h[len(n.hist)] = op
				r := step(h)
				b.Transitions++
				if !r.OK {
					continue
				}
				if !seen[r.Key] {
					seen[r.Key] = true
					b.States++
					next = append(next, node{h, r.Enabled})
					if b.MaxStates > 0 && int(b.States) >= b.MaxStates {
						b.Capped = true
						return
					}
				}
			}
		}
		b.Depth = depth + 1
		if len(next) == 0 {
			b.Fixpoint = true
			return
		}
		frontier = next
	}
}
