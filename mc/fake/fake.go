// Package fake holds the environment doubles: a scripted net.Conn whose reads block on
// the controlled scheduler and whose writes are fault-injection points, and a real
// gorilla *websocket.Conn (server side) running on top of it.
package fake

import (
	"bufio"
	"bytes"
	"encoding/binary"
	"errors"
	"io"
	"net"
	"net/http"
	"sync"
	"time"

	"github.com/gorilla/websocket"

	"verifmc/vsched"
)

type addr string

func (a addr) Network() string { return "tcp" }
func (a addr) String() string  { return string(a) }

// Conn is a scripted connection.  In holds the bytes the peer has sent (readable),
// Out logs every successful Write.  With a scheduler installed a Read with nothing
// to read blocks the managed thread until bytes are fed or the peer closes; without
// one it returns io.EOF (the script is exhausted: the peer went away).
type Conn struct {
	// CloseErr is what Close reports (the connection is closed all the same): a TLS or
	// TCP connection that was reset cannot deliver its farewell and says so
	CloseErr   error
	mu         sync.Mutex
	in         bytes.Buffer
	PeerClosed bool // no more input will come: Read returns EOF when drained
	Closed     bool // closed locally
	Out        [][]byte
	Writes     int
	// OnWrite decides the fate of write number n (0-based): nil = success; an error
	// fails the write before anything is written; partial>0 writes that many bytes first.
	OnWrite func(n int, p []byte) (partial int, err error)
	Name    string
	// Waiting is true while a managed thread is parked in Read with nothing to read
	// (a harness driver waits for this to know the handler has consumed its input).
	Waiting bool
	// Blocking makes a Read with nothing to read wait (for Feed / ClosePeer / Close) when no
	// scheduler is installed: a real handler goroutine then stays parked like on a socket.
	Blocking bool
	cond     *sync.Cond
}

func (c *Conn) wake() {
	if c.cond != nil {
		c.cond.Broadcast()
	}
}

// WaitIdle blocks (free-running mode) until the reader is parked with nothing to read, or
// the connection was closed locally.  The wait is for completion of the handler's work,
// bounded only by a generous deadline (returns false on expiry).
func (c *Conn) WaitIdle(d time.Duration) bool {
	deadline := time.Now().Add(d)
	for time.Now().Before(deadline) {
		c.mu.Lock()
		idle := (c.Waiting && c.in.Len() == 0) || c.Closed
		c.mu.Unlock()
		if idle {
			return true
		}
		time.Sleep(200 * time.Microsecond)
	}
	return false
}

func NewConn(name string) *Conn { return &Conn{Name: name} }

// Feed appends bytes the peer sends.
func (c *Conn) Feed(b []byte) { c.mu.Lock(); c.in.Write(b); c.wake(); c.mu.Unlock() }

// PendingIn returns the bytes fed but not yet read.
func (c *Conn) PendingIn() []byte {
	c.mu.Lock()
	defer c.mu.Unlock()
	return append([]byte{}, c.in.Bytes()...)
}

// ClosePeer marks the end of the peer's stream.
func (c *Conn) ClosePeer() { c.mu.Lock(); c.PeerClosed = true; c.wake(); c.mu.Unlock() }

func (c *Conn) readable() bool {
	c.mu.Lock()
	defer c.mu.Unlock()
	return c.in.Len() > 0 || c.PeerClosed || c.Closed
}

var ErrClosed = errors.New("use of closed network connection")

func (c *Conn) Read(p []byte) (int, error) {
	if s := vsched.Active(); s != nil && !s.Aborted() {
		if !c.readable() {
			c.Waiting = true
			s.Block("read "+c.Name, c.readable)
			c.Waiting = false
		} else {
			s.Yield("read " + c.Name)
		}
	}
	c.mu.Lock()
	defer c.mu.Unlock()
	if c.Blocking && vsched.Active() == nil {
		if c.cond == nil {
			c.cond = sync.NewCond(&c.mu)
		}
		for c.in.Len() == 0 && !c.PeerClosed && !c.Closed {
			c.Waiting = true
			c.cond.Wait()
		}
		c.Waiting = false
	}
	if c.Closed {
		return 0, ErrClosed
	}
	if c.in.Len() == 0 {
		return 0, io.EOF
	}
	return c.in.Read(p)
}

func (c *Conn) Write(p []byte) (int, error) {
	if s := vsched.Active(); s != nil && !s.Aborted() {
		s.Yield("write " + c.Name)
	}
	c.mu.Lock()
	defer c.mu.Unlock()
	if c.Closed {
		return 0, ErrClosed
	}
	n := c.Writes
	c.Writes++
	if c.OnWrite != nil {
		partial, err := c.OnWrite(n, p)
		if err != nil {
			if partial > 0 {
				if partial > len(p) {
					partial = len(p)
				}
				c.Out = append(c.Out, append([]byte{}, p[:partial]...))
			}
			return partial, err
		}
	}
	c.Out = append(c.Out, append([]byte{}, p...))
	return len(p), nil
}

func (c *Conn) Close() error {
	c.mu.Lock()
	c.Closed = true
	c.wake()
	c.mu.Unlock()
	return c.CloseErr
}
func (c *Conn) LocalAddr() net.Addr                { return addr("127.0.0.1:40056") }
func (c *Conn) RemoteAddr() net.Addr               { return addr("10.1.1.1:50000") }
func (c *Conn) SetDeadline(t time.Time) error      { return nil }
func (c *Conn) SetReadDeadline(t time.Time) error  { return nil }
func (c *Conn) SetWriteDeadline(t time.Time) error { return nil }

// OutBytes returns everything written so far.
func (c *Conn) OutBytes() []byte {
	c.mu.Lock()
	defer c.mu.Unlock()
	var b []byte
	for _, w := range c.Out {
		b = append(b, w...)
	}
	return b
}

// ---------------------------------------------------------------------------

type hijackWriter struct {
	c    *Conn
	hdr  http.Header
	code int
}

func (h *hijackWriter) Header() http.Header         { return h.hdr }
func (h *hijackWriter) Write(b []byte) (int, error) { return len(b), nil }
func (h *hijackWriter) WriteHeader(c int)           { h.code = c }
func (h *hijackWriter) Hijack() (net.Conn, *bufio.ReadWriter, error) {
	return h.c, bufio.NewReadWriter(bufio.NewReader(h.c), bufio.NewWriter(h.c)), nil
}

// WS is a server-side websocket connection (real gorilla code) on a scripted Conn.
type WS struct {
	Conn    *websocket.Conn
	Raw     *Conn
	hsBytes int // bytes of the HTTP 101 response at the start of the write log
}

// NewWS performs the real Upgrader.Upgrade (default Upgrader, as the teamserver uses)
// against a hijackable writer.  The handshake response is written to the log and
// skipped by Frames.
func NewWS(name string) *WS {
	raw := NewConn(name)
	req, _ := http.NewRequest("GET", "/havoc/", nil)
	req.Header.Set("Connection", "Upgrade")
	req.Header.Set("Upgrade", "websocket")
	req.Header.Set("Sec-WebSocket-Version", "13")
	req.Header.Set("Sec-WebSocket-Key", "dGhlIHNhbXBsZSBub25jZQ==")
	up := websocket.Upgrader{}
	w := &hijackWriter{c: raw, hdr: http.Header{}}
	conn, err := up.Upgrade(w, req, nil)
	if err != nil {
		panic("fake: upgrade failed: " + err.Error())
	}
	ws := &WS{Conn: conn, Raw: raw}
	ws.hsBytes = len(raw.OutBytes())
	raw.Writes = 0
	return ws
}

// ClientFrame builds a masked client->server frame (mask key zero: payload in clear).
func ClientFrame(opcode byte, payload []byte) []byte {
	var b []byte
	b = append(b, 0x80|opcode)
	n := len(payload)
	switch {
	case n < 126:
		b = append(b, 0x80|byte(n))
	case n < 65536:
		b = append(b, 0x80|126, byte(n>>8), byte(n))
	default:
		b = append(b, 0x80|127)
		var l [8]byte
		binary.BigEndian.PutUint64(l[:], uint64(n))
		b = append(b, l[:]...)
	}
	b = append(b, 0, 0, 0, 0)
	return append(b, payload...)
}

// SendText feeds a text message from the client.
func (w *WS) SendText(s string)   { w.Raw.Feed(ClientFrame(websocket.TextMessage, []byte(s))) }
func (w *WS) SendBinary(b []byte) { w.Raw.Feed(ClientFrame(websocket.BinaryMessage, b)) }
func (w *WS) SendClose()          { w.Raw.Feed(ClientFrame(websocket.CloseMessage, []byte{0x03, 0xe8})) }

// Frame is one server->client frame decoded from the write log.
type Frame struct {
	Opcode  byte
	Fin     bool
	Payload []byte
}

// Frames decodes the complete frames the server has written (after the handshake);
// rest is the number of trailing bytes that do not form a complete frame.
func (w *WS) Frames() (frames []Frame, rest int) {
	b := w.Raw.OutBytes()
	if len(b) < w.hsBytes {
		return nil, 0
	}
	b = b[w.hsBytes:]
	for len(b) >= 2 {
		fin := b[0]&0x80 != 0
		op := b[0] & 0x0f
		n := int(b[1] & 0x7f)
		off := 2
		switch n {
		case 126:
			if len(b) < 4 {
				return frames, len(b)
			}
			n = int(binary.BigEndian.Uint16(b[2:]))
			off = 4
		case 127:
			if len(b) < 10 {
				return frames, len(b)
			}
			n = int(binary.BigEndian.Uint64(b[2:]))
			off = 10
		}
		if len(b) < off+n {
			return frames, len(b)
		}
		frames = append(frames, Frame{Opcode: op, Fin: fin, Payload: append([]byte{}, b[off:off+n]...)})
		b = b[off+n:]
	}
	return frames, len(b)
}

// Listener is a scripted net.Listener: Accept blocks the managed thread until the
// harness queues a connection or the listener is closed.
type Listener struct {
	mu     sync.Mutex
	queue  []net.Conn
	closed bool
	Addr_  string
}

func (l *Listener) Push(c net.Conn) { l.mu.Lock(); l.queue = append(l.queue, c); l.mu.Unlock() }
func (l *Listener) ready() bool {
	l.mu.Lock()
	defer l.mu.Unlock()
	return len(l.queue) > 0 || l.closed
}
func (l *Listener) Accept() (net.Conn, error) {
	if s := vsched.Active(); s != nil && !s.Aborted() {
		if !l.ready() {
			s.Block("accept "+l.Addr_, l.ready)
		}
	}
	l.mu.Lock()
	defer l.mu.Unlock()
	if len(l.queue) > 0 {
		c := l.queue[0]
		l.queue = l.queue[1:]
		vsched.NoteProgress()
		return c, nil
	}
	return nil, ErrClosed
}
func (l *Listener) Close() error   { l.mu.Lock(); l.closed = true; l.mu.Unlock(); return nil }
func (l *Listener) Closed() bool   { l.mu.Lock(); defer l.mu.Unlock(); return l.closed }
func (l *Listener) Addr() net.Addr { return addr(l.Addr_) }
