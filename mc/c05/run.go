// Package c05: "Only callbacks to outstanding tasks have any effect".
package c05

import (
	"fmt"
	"os"
	"runtime/debug"
	"runtime/pprof"
	"time"

	"verifmc/ev"
	"verifmc/par"
)

const nShards = 2 * nIssuable // focus kind × SendLogs

func Run(r *ev.Run) {
	r.Rule = "(1) explicit-state BFS over histories of issue(X,kind) / hand-out(X) / callback(X, id class, reply class) for two agents, one search per (focus task kind, SendLogs), every transition executed on one real in-process teamserver through the operator dispatch path and the HTTP listener, judged against a reference set of outstanding ids (issued − finally answered); effects = recorded teamserver-interface calls, any session-field change, any file-tree change, any connection to a loopback probe; " +
		"(2) sweep of the gate: every command id of a range × request-id classes that are not outstanding × bodies that make the handler act, from a fixed base state; " +
		"(3) completion table: for every terminal reply of the catalogue issue → wrong-agent reply → output → final → replay → output. distinct = observed (id class, reply class, hand-out phase, acted/dropped + effect kinds) classes"
	r.Assume(
		"a reply counts as final for a task when Command.c sends exactly one such package as the last word of that task; COMMAND_OUTPUT, COMMAND_ERROR/win32, BEACON_OUTPUT and the listed notices are non-final",
		"a final reply of another task kind carrying an outstanding id is a don't-care of the statement (acting is allowed; completion unspecified): the model adopts the implementation's choice",
		"request ids of mem-file chunks are drawn by the teamserver (math/rand, seeded by the harness); the model learns them from the task list at issue time, as the agent learns them at hand-out",
		"an observed callback never shares its request with a hand-out: with an empty job queue it rides in a GET_JOB request (PackageTransmitAll), while jobs are queued it is sent as a package that does not ask for jobs (PackageTransmitNow); draining the queue and its 'Send Task to Agent' console line belong to the hand-out step",
		"outbound-dial probe: only the synchronous dial of the reverse-port-forward path (PortFwdOpen) is observable deterministically; the socks path dials from the operator side and is not driven",
	)
	if os.Getenv("VERIF_C05_ONLY_LAUNDER") != "" { // development
		runLaunder(r)
		return
	}
	if os.Getenv("VERIF_RACE_PASS") != "" {
		runFree(r)
		return
	}
	// quick: one search per shard, bounded depth.  thorough: the same model run to its
	// fixpoint (the state space under these caps is finite), then a larger model
	// (more simultaneously outstanding tasks) to a bounded depth.
	thorough := r.Thorough()
	budget := 60 * time.Second
	if thorough {
		budget = 16 * time.Minute
	}
	var pb []string
	for k := 0; k < nIssuable; k++ {
		for _, p := range phasesFor(k, thorough) {
			pb = append(pb, fmt.Sprintf("%s: depth<=%d with at most %d (A) / %d (B) operator tasks outstanding", kinds[k].name, p.depth, p.caps[0], p.caps[1]))
		}
	}
	r.Bounds["history_searches"] = pb
	r.Bounds["agents"] = 2
	var kn []string
	for k := 0; k < nIssuable; k++ {
		kn = append(kn, kinds[k].name)
	}
	r.Bounds["task_kinds"] = kn
	r.Bounds["task_kinds_per_search"] = "A: {focus kind, sleep (cd when the focus is sleep)}; B: {focus kind}; fs-upload brings its mem-file chunk task"
	r.Bounds["id_classes"] = rselName[:]
	r.Bounds["reply_classes"] = className[:]
	r.Bounds["send_logs"] = []bool{false, true}
	sweepBounds(r)

	if _, _, worker := par.Shard(); !worker {
		runPivotPair(r)
		runPivotDisconnect(r)
		runIssueVsCompletion(r)
		runLaunder(r)
		// the other server flags are not "agent log forwarding": with all of them on and
		// --send-logs off the completion table and the whole sweep run once more
		func() {
			w := newWorldFlags(false, true)
			defer w.close()
			runTable(r, w)
			runSweep(r, w, 0, 1)
		}()
	}
	start := time.Now()
	par.Run(r, nShards, budget+45*time.Second, func(i, n int, r *ev.Run) {
		if n != nShards {
			// single-process fallback (par.Run with n<=1): run every shard in turn
			for j := 0; j < nShards; j++ {
				runShard(r, j, phasesFor(j/2, thorough), start.Add(budget))
			}
			return
		}
		runShard(r, i, phasesFor(i/2, thorough), start.Add(budget))
	})
}

type phase struct {
	depth int
	caps  [2]int
}

// phasesFor: the searches of one focus kind.  quick: one bounded search.  thorough: the
// same model to its fixpoint (finite under the caps; reached at depth 10–12), then a
// larger model (more simultaneously outstanding tasks) to a bounded depth.  An upload
// brings a second task (its mem-file chunk) per issue and exit adds the active flag;
// their state spaces are several times larger, so their bounds are lower.
func phasesFor(focus int, thorough bool) []phase {
	var ph []phase
	switch {
	case !thorough:
		ph = []phase{{depth: 6, caps: [2]int{2, 1}}}
		if focus == kUpload {
			ph[0].depth = 5
		}
	case focus == kUpload:
		ph = []phase{{depth: 8, caps: [2]int{2, 1}}, {depth: 6, caps: [2]int{3, 2}}}
	case focus == kExit:
		ph = []phase{{depth: 18, caps: [2]int{2, 1}}, {depth: 7, caps: [2]int{3, 2}}}
	default:
		ph = []phase{{depth: 18, caps: [2]int{2, 1}}, {depth: 9, caps: [2]int{3, 2}}}
	}
	if v := os.Getenv("C05_DEPTH"); v != "" { // development knobs
		fmt.Sscan(v, &ph[0].depth)
		ph = ph[:1]
	}
	if v := os.Getenv("C05_CAPS"); v != "" {
		fmt.Sscanf(v, "%d,%d", &ph[0].caps[0], &ph[0].caps[1])
	}
	return ph
}

func runShard(r *ev.Run, i int, phases []phase, deadline time.Time) {
	debug.SetGCPercent(400)
	w := newWorld(i%2 == 1)
	defer w.close()
	if os.Getenv("C05_DUMP") != "" {
		dump = true
	}
	if pf := os.Getenv("C05_PROF"); pf != "" {
		f, _ := os.Create(pf)
		pprof.StartCPUProfile(f)
		defer pprof.StopCPUProfile()
	}
	// the fixed-size parts first: the completion table in shards 0 and 1 (SendLogs off /
	// on), the sweep's command-id range split over the shards of equal SendLogs
	if i < 2 {
		runTable(r, w)
	}
	runSweep(r, w, i/2, nIssuable)
	for _, p := range phases {
		s := &shard{focus: i / 2, sendLogs: i%2 == 1, depth: p.depth, capOut: p.caps}
		s.run(r, w, deadline)
	}
	// queue edits (shards of the sleep kind): relay jobs and the operator's "task clear"
	// among issue, hand-out and callbacks of one agent
	if i/2 == kSleep {
		d := 8
		if r.Thorough() {
			d = 12
		}
		s := &shard{edits: true, focus: kSleep, sendLogs: i%2 == 1, depth: d, capOut: [2]int{2, 0}}
		s.run(r, w, deadline)
	}
}
