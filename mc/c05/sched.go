package c05

import (
	"fmt"
	"strings"
	"time"

	"Havoc/pkg/agent"

	"verifmc/demonwire"
	"verifmc/ev"
	"verifmc/explore"
	"verifmc/seam"
	"verifmc/vsched"
)

// Part 5: the list of outstanding request ids under concurrency.  The operator issues a
// task to an agent while the listener processes the final callback of another task of
// the same agent.  On every schedule within the preemption bound (scheduling points at
// every access of Tasks / JobQueue and at the mutex operations): afterwards the answered
// id is not accepted again, the newly issued one is, and nothing panicked or kept a lock.
func runIssueVsCompletion(r *ev.Run) {
	if !vsched.Instrumented {
		r.Violate("harness/not-instrumented", "C05 part 5 needs the sched build", nil)
		return
	}
	bound := 2
	if r.Thorough() {
		bound = 3
	}
	r.Bounds["preemption_bound_issue_vs_completion"] = bound
	sleep := func(d, j uint32) []byte { w := &demonwire.W{}; w.I32(d).I32(j); return w.B }
	const idS = 0x00c05a51
	const t1, t2 = 0x5101, 0x5102
	outcomes := map[string]bool{}
	dl := 4 * time.Minute
	if r.Thorough() {
		dl = 12 * time.Minute
	}
	t := explore.Tree{Bound: bound, Deadline: time.Now().Add(dl)}
	t.Run(func(c *explore.Chooser) {
		ts := seam.New(seam.Options{})
		defer ts.Close()
		a := ts.MustRegister(idS, 1)
		ts.Task(idS, fmt.Sprintf("%08x", t1), agent.COMMAND_SLEEP, map[string]any{"Arguments": "5;10"})
		ts.CheckIn(idS, 1) // hand-out of T1
		s := vsched.New(c, 20000, "Tasks", "JobQueue", "sync.Mutex")
		s.SpinFree = 16 // the loops on these paths parse and wrap, they do not poll (vsched.Sched.SpinFree)
		var bad []string
		s.Spawn("operator", func() {
			if p := ts.Task(idS, fmt.Sprintf("%08x", t2), agent.COMMAND_SLEEP, map[string]any{"Arguments": "6;11"}); p != nil {
				bad = append(bad, fmt.Sprint("operator: ", p))
			}
		})
		s.Spawn("listener", func() {
			res, _, _ := ts.CheckIn(idS, 1, demonwire.Sub{Cmd: agent.COMMAND_SLEEP, ReqID: t1, Body: sleep(42, 3)})
			if res.Panic != nil && !vsched.IsAbort(res.Panic) {
				bad = append(bad, fmt.Sprintf("listener: %v @ %s", res.Panic, res.Stack))
			}
		})
		s.Run()
		detail := map[string]any{"choices": c.Choices(), "schedule_tail": tailN(s.Trace, 40)}
		switch {
		case len(s.Panics) > 0 || len(bad) > 0:
			r.Violate("sched/panic/"+ev.Normalize(fmt.Sprint(append(s.Panics, bad...)[0])), fmt.Sprint(append(s.Panics, bad...)), detail)
			return
		case s.Deadlock:
			r.Violate("sched/deadlock", s.DeadlockWhy, detail)
			return
		case s.HorizonHit:
			r.Violate("sched/horizon", "did not finish", detail)
			return
		case len(s.Held()) > 0:
			r.Violate("sched/lock-held", fmt.Sprint(s.Held()), detail)
			return
		}
		// sequentially, no scheduler installed any more
		acted := func(req uint32, d uint32) bool {
			before := a.Info.SleepDelay
			ts.Rec.Take()
			ts.CheckIn(idS, 1, demonwire.Sub{Cmd: agent.COMMAND_SLEEP, ReqID: req, Body: sleep(d, 7)})
			hit := a.Info.SleepDelay == int(d) && before != int(d)
			for _, e := range ts.Rec.Take() {
				if e.Call == "AgentConsole" && strings.Contains(e.Arg, fmt.Sprintf("%d seconds", d)) {
					hit = true
				}
			}
			return hit
		}
		firstActed := a.Info.SleepDelay == 42
		replayed := acted(t1, 77)
		ts.CheckIn(idS, 1) // hand-out of T2
		second := acted(t2, 55)
		obs := fmt.Sprintf("final-of-T1-acted=%v replay-of-T1-acted=%v T2-acted=%v", firstActed, replayed, second)
		outcomes[obs] = true
		detail["observed"] = obs
		switch {
		case !firstActed:
			r.Violate("sched/outstanding-id-dropped", "the final callback of the handed-out task T1 was not acted upon while a second task was being issued: "+obs, detail)
		case replayed:
			r.Violate("sched/completed-id-accepted-again", "T1's request id was answered finally, yet a later callback carrying it is acted upon (the completion was lost against the concurrent issue of T2): "+obs, detail)
		case !second:
			r.Violate("sched/issued-id-not-accepted", "T2 was issued and handed out, but its callback is dropped (the issue was lost against the concurrent completion of T1): "+obs, detail)
		}
	})
	if t.Err != nil {
		r.Violate("harness/nondeterminism", t.Err.Error(), nil)
	}
	if t.Capped {
		r.NotExhaustive("issue-vs-completion schedules stopped by the internal deadline")
	}
	for o := range outcomes {
		r.Outcome("sched-issue-vs-completion/" + o)
	}
	r.Extra["schedules_issue_vs_completion"] = map[string]any{"executions": t.Executions, "choice_points": t.Points, "preemption_bound": bound, "distinct_observations": len(outcomes)}
	r.Eval(int(t.Executions))
	r.AddStates(t.Points, t.Points, t.Executions)
}

func tailN(s []string, n int) []string {
	if len(s) > n {
		return s[len(s)-n:]
	}
	return s
}
