package c05

import (
	"bytes"
	"fmt"
	"strings"
	"time"

	"Havoc/pkg/agent"

	"verifmc/ev"
	"verifmc/explore"
)

// ---- reference model -----------------------------------------------------------------
//
// outstanding[X] = request ids issued to X (from issue time — not from hand-out) minus
// the ones whose final reply X has sent.  Nothing else.  The model never looks at the
// implementation, with two declared exceptions (world.implHas):
//   - the request id of a mem-file chunk is drawn at random by the teamserver; the
//     model learns it the way the agent would (it is in the task list after the issue);
//   - a final reply of the WRONG kind carrying an outstanding id (e.g. a sleep reply for
//     an id that was issued for `cd`) is a don't-care of the statement: the id is
//     outstanding, so acting is allowed; whether that completes the task is not said.
//     The model adopts whatever the implementation did and goes on from there.

type mtask struct {
	id   uint32
	kind int
}

type magent struct {
	out    []mtask
	done   []mtask
	queue  int
	active bool
	relays int    // relay jobs (request id 0) queued so far for this agent: they make nothing outstanding
	order  []byte // relay jobs and outstanding tasks in the order they were queued (the order of the bookkeeping list): r/t queued, R/T handed out, x/y taken off the queue by a clear
	clears int    // "task clear" commands so far (what a clear did to the bookkeeping is not visible in the model: kept in the key)
}

type model struct {
	ag   [2]magent
	next uint32
}

func newModel() *model {
	m := &model{next: 0x100}
	m.ag[0].active, m.ag[1].active = true, true
	return m
}

func (a *magent) find(id uint32) int {
	for i, t := range a.out {
		if t.id == id {
			return i
		}
	}
	return -1
}

func (a *magent) complete(id uint32) {
	if i := a.find(id); i >= 0 {
		// drop the i-th 'T' of the order
		n := -1
		for k, c := range a.order {
			if c == 'T' || c == 't' || c == 'y' {
				n++
				if n == i {
					a.order = append(append([]byte{}, a.order[:k]...), a.order[k+1:]...)
					break
				}
			}
		}
		a.done = append(a.done, a.out[i])
		a.out = append(append([]mtask{}, a.out[:i]...), a.out[i+1:]...)
	}
}

const (
	neverLo = 0x00000010 // below every issued id
	neverHi = 0xfffffff0 // above every issued id
)

// ---- alphabet ---------------------------------------------------------------------------

const (
	opIssue = iota
	opHandout
	opCallback
	opRelay // a relay job (socks / port-forward traffic, request id 0) is queued for the agent
	opClear // the operator's "task clear"
)

const (
	rOutFirst = iota // oldest outstanding id of the sender
	rOutLast         // newest outstanding id of the sender (when there are two or more)
	rDone            // id whose final reply the sender has already sent
	rOther           // id outstanding at the OTHER agent
	rNeverLo         // never issued, numerically below all issued ids
	rNeverHi         // never issued, numerically above all issued ids
	nRsel
)

var rselName = [...]string{"outstanding", "outstanding-newest", "completed", "other-agents", "never-issued-low", "never-issued-high"}

type op struct {
	typ  int
	x    int
	kind int // issue
	rsel int
	csel int
}

func (o op) String() string {
	switch o.typ {
	case opIssue:
		return fmt.Sprintf("issue(%s,%s)", agents[o.x].name, kinds[o.kind].name)
	case opHandout:
		return fmt.Sprintf("hand-out(%s)", agents[o.x].name)
	case opRelay:
		return fmt.Sprintf("relay-job(%s)", agents[o.x].name)
	case opClear:
		return fmt.Sprintf("task-clear(%s)", agents[o.x].name)
	}
	return fmt.Sprintf("callback(%s,id=%s,%s)", agents[o.x].name, rselName[o.rsel], className[o.csel])
}

type shard struct {
	edits    bool // the queue-edit alphabet (one agent: issue, hand-out, relay job, task clear, final / output callbacks)
	focus    int
	sendLogs bool
	kindsOf  [2][]int // task kinds each agent may be issued
	capOut   [2]int   // bound on simultaneously outstanding operator tasks per agent
	depth    int
	alpha    []op
}

func (s *shard) build() {
	if s.edits {
		s.kindsOf[0] = []int{s.focus}
		s.alpha = append(s.alpha, op{typ: opIssue, x: 0, kind: s.focus}, op{typ: opHandout, x: 0}, op{typ: opRelay, x: 0}, op{typ: opClear, x: 0})
		for _, rs := range []int{rOutFirst, rOutLast, rDone} {
			for _, c := range []int{cFinal, cOutput} {
				s.alpha = append(s.alpha, op{typ: opCallback, x: 0, rsel: rs, csel: c})
			}
		}
		return
	}
	second := kSleep
	if s.focus == kSleep {
		second = kCd
	}
	s.kindsOf[0] = []int{s.focus, second}
	s.kindsOf[1] = []int{s.focus}
	for x := 0; x < 2; x++ {
		for _, k := range s.kindsOf[x] {
			s.alpha = append(s.alpha, op{typ: opIssue, x: x, kind: k})
		}
		s.alpha = append(s.alpha, op{typ: opHandout, x: x})
		for rs := 0; rs < nRsel; rs++ {
			for c := 0; c < nClasses; c++ {
				s.alpha = append(s.alpha, op{typ: opCallback, x: x, rsel: rs, csel: c})
			}
		}
	}
}

// operator tasks outstanding (mem-file chunks ride along with their upload)
func opTasks(a *magent) int {
	n := 0
	for _, t := range a.out {
		if t.kind != kMemFile {
			n++
		}
	}
	return n
}

// pick resolves an id selector in the current model state.
func (s *shard) pick(m *model, x, rsel int) (mtask, bool) {
	a, b := &m.ag[x], &m.ag[1-x]
	switch rsel {
	case rOutFirst:
		if len(a.out) >= 1 {
			return a.out[0], true
		}
	case rOutLast:
		if len(a.out) >= 2 {
			return a.out[len(a.out)-1], true
		}
	case rDone:
		if len(a.done) >= 1 {
			return a.done[len(a.done)-1], true
		}
	case rOther:
		if len(b.out) >= 1 {
			return b.out[0], true
		}
	case rNeverLo:
		return mtask{neverLo, s.focus}, true
	case rNeverHi:
		return mtask{neverHi, s.focus}, true
	}
	return mtask{}, false
}

func (s *shard) enabled(m *model) []int {
	var en []int
	for i, o := range s.alpha {
		switch o.typ {
		case opIssue:
			if opTasks(&m.ag[o.x]) < s.capOut[o.x] {
				en = append(en, i)
			}
		case opHandout:
			if m.ag[o.x].queue > 0 {
				en = append(en, i)
			}
		case opClear:
			if m.ag[o.x].queue > 0 && m.ag[o.x].clears < 1 {
				en = append(en, i)
			}
		case opRelay:
			if m.ag[o.x].relays < 2 {
				en = append(en, i)
			}
		case opCallback:
			t, ok := s.pick(m, o.x, o.rsel)
			if !ok {
				continue
			}
			if o.csel == cCross && m.ag[o.x].find(t.id) < 0 {
				continue // for an id that is not outstanding the kind of final reply is immaterial: cFinal covers it
			}
			if o.csel == cPivot && t.kind == kPivotList {
				continue // identical to cFinal
			}
			if o.csel == cFinalFailed && t.kind != kMemFile {
				continue // only the chunk job has a failure form of its final reply here
			}
			en = append(en, i)
		}
	}
	return en
}

// key: per agent the kinds of the outstanding tasks in issue order (ids renamed by
// position), the kind of the latest completed task, queue class, active flag.
func (m *model) key() string {
	var b strings.Builder
	for x := range m.ag {
		a := &m.ag[x]
		for _, t := range a.out {
			b.WriteString(kinds[t.kind].name)
			b.WriteByte(',')
		}
		b.WriteByte('|')
		if n := len(a.done); n > 0 {
			b.WriteString(kinds[a.done[n-1].kind].name)
		}
		q := a.queue
		if q > 1 {
			q = 2
		}
		fmt.Fprintf(&b, "|q%d|%v|r%d|c%d|%s;", q, a.active, a.relays, a.clears, a.order)
	}
	return b.String()
}

// fingerprint: the complete model state (ids included), to detect "model unchanged".
func (m *model) fingerprint() string {
	return fmt.Sprint(m.ag, m.next)
}

// ---- one step ---------------------------------------------------------------------------

type stepOut struct {
	inert   bool   // a callback that had no observable effect at all
	prune   bool   // do not extend this history (see final-not-processed)
	bad     string // request-level failure (panic …)
	sig     string // violation signature ("" = none)
	what    string
	outcome string
}

// apply runs op o on the real teamserver and on the model.  check=true on the last op
// of a history: effects are observed and judged.
func (s *shard) apply(w *world, m *model, o op, check bool) (res stepOut) {
	x := o.x
	a := &m.ag[x]
	switch o.typ {
	case opIssue:
		m.next++
		id := m.next
		kd := kinds[o.kind]
		if p := w.task(x, id, o.kind); p != nil {
			res.bad = fmt.Sprintf("operator request panicked: %v", p)
			return
		}
		if o.kind == kUpload {
			// learn the random request id(s) of the chunk job(s) queued under the upload
			ag := w.ag[x]
			ag.JobsMtx.Lock()
			for _, j := range ag.Tasks {
				if j.Command == agent.COMMAND_MEM_FILE && a.find(j.RequestID) < 0 {
					a.out = append(a.out, mtask{j.RequestID, kMemFile})
					a.queue++
				}
			}
			ag.JobsMtx.Unlock()
		}
		a.out = append(a.out, mtask{id, o.kind})
		a.queue++
		if s.edits {
			a.order = append(append([]byte{}, a.order...), 't')
		}
		res.outcome = "issue/" + kd.name
		return

	case opHandout:
		tasks, bad := w.send(x)
		if bad != "" {
			res.bad = bad
			return
		}
		if check {
			res.outcome = fmt.Sprintf("hand-out/%d", len(tasks))
		}
		a.queue = 0
		a.order = bytes.ReplaceAll(bytes.ReplaceAll(a.order, []byte("r"), []byte("R")), []byte("t"), []byte("T"))
		return

	case opRelay:
		// what the relay goroutines do with data that arrives for the agent
		w.curValid = false
		w.ag[x].AddJobToQueue(agent.Job{Command: agent.COMMAND_SOCKET, Data: []any{agent.SOCKET_COMMAND_CLOSE, 0x77}})
		a.queue++
		a.relays++
		a.order = append(append([]byte{}, a.order...), 'r')
		res.outcome = "relay-job"
		return

	case opClear:
		// queued jobs go; what was issued stays issued (nothing answers it, nothing completes it)
		m.next++
		w.curValid = false
		if p := w.ts.Task(agents[x].id, fmt.Sprintf("%08x", m.next), 0, map[string]any{"CommandID": "Teamserver", "Command": "task::clear"}); p != nil {
			res.bad = fmt.Sprintf("task clear panicked: %v", p)
			return
		}
		a.queue = 0
		a.clears++
		a.order = bytes.ReplaceAll(bytes.ReplaceAll(a.order, []byte("r"), []byte("x")), []byte("t"), []byte("y"))
		res.outcome = "task-clear"
		return
	}

	// callback
	t, ok := s.pick(m, x, o.rsel)
	if !ok {
		res.bad = "selector not applicable (harness)"
		return
	}
	pk := packet(o.csel, t.kind, x, t.id)
	outstanding := a.find(t.id) >= 0
	matchedFinal := outstanding && (o.csel == cFinal || o.csel == cFinalFailed || (o.csel == cPivot && t.kind == kPivotList))
	dontCare := outstanding && !matchedFinal && (o.csel == cCross || o.csel == cPivot)
	allowed := outstanding || exempt(pk.Cmd, s.sendLogs)
	beforeHandout := a.queue > 0

	var eff []string
	if check {
		var bad string
		eff, _, bad = w.callback(x, pk)
		if bad != "" {
			res.bad = bad
			return
		}
	} else if bad := w.post(x, pk); bad != "" {
		res.bad = bad
		return
	}

	if check {
		acted := "dropped"
		res.inert = len(eff) == 0
		if len(eff) > 0 {
			acted = "acted:" + effectClasses(eff)
		}
		ph := "after-hand-out"
		if beforeHandout {
			ph = "before-hand-out"
		}
		res.outcome = fmt.Sprintf("%s/%s/%s/%s", rselName[o.rsel], className[o.csel], ph, acted)
		if len(eff) > 0 && !allowed {
			res.sig = fmt.Sprintf("acted-on-unsolicited/id=%s/cmd=%s/sendlogs=%v", rselName[o.rsel], cmdName(pk.Cmd), s.sendLogs)
			res.what = fmt.Sprintf("agent %s sent %s (command %d) with request id %08x, which is %s — not outstanding at %s — and the teamserver acted on it: %s",
				agents[x].name, className[o.csel], pk.Cmd, t.id, describeID(m, x, t.id), agents[x].name, strings.Join(eff, "; "))
			return
		}
	}

	switch {
	case matchedFinal:
		if check && len(eff) == 0 {
			// not acted upon at all: the reply was not "processed", the task is not completed
			// (histories through this point are not extended: an unobserved replay could not
			// tell whether the reply was processed)
			res.outcome += "/final-not-processed"
			res.prune = true
			return
		}
		a.complete(t.id)
		switch t.kind {
		case kExit:
			a.active = false
		case kCheckin:
			a.active = true
		}
		if check && !exempt(pk.Cmd, s.sendLogs) {
			// the same packet replayed must now be dropped
			eff2, _, bad := w.callback(x, pk)
			if bad != "" {
				res.bad = bad
				return
			}
			if len(eff2) > 0 {
				res.sig = fmt.Sprintf("id-accepted-after-final/kind=%s", kinds[t.kind].name)
				res.what = fmt.Sprintf("agent %s answered task %08x (%s) with its final reply; the same packet replayed was acted on again: %s",
					agents[x].name, t.id, kinds[t.kind].name, strings.Join(eff2, "; "))
				return
			}
		}
	case dontCare:
		if !w.implHas(x, t.id) {
			a.complete(t.id)
		}
	}
	return
}

func describeID(m *model, x int, id uint32) string {
	for _, t := range m.ag[x].done {
		if t.id == id {
			return "the id of a task (" + kinds[t.kind].name + ") this agent has already answered finally"
		}
	}
	if i := m.ag[1-x].find(id); i >= 0 {
		return "outstanding at agent " + agents[1-x].name + " (" + kinds[m.ag[1-x].out[i].kind].name + ")"
	}
	return "an id that was never issued"
}

var cmdNames = map[uint32]string{
	agent.COMMAND_SLEEP: "SLEEP", agent.COMMAND_FS: "FS", agent.COMMAND_PROC_LIST: "PROC_LIST", agent.COMMAND_CHECKIN: "CHECKIN",
	agent.COMMAND_EXIT: "EXIT", agent.COMMAND_JOB: "JOB", agent.COMMAND_PIVOT: "PIVOT", agent.COMMAND_SOCKET: "SOCKET",
	agent.COMMAND_OUTPUT: "OUTPUT", agent.COMMAND_ERROR: "ERROR", agent.BEACON_OUTPUT: "BEACON_OUTPUT", agent.COMMAND_MEM_FILE: "MEM_FILE",
}

func cmdName(c uint32) string {
	if n, ok := cmdNames[c]; ok {
		return n
	}
	return fmt.Sprintf("%d", c)
}

// ---- the search ---------------------------------------------------------------------------

func (s *shard) run(r *ev.Run, w *world, deadline time.Time) {
	s.build()
	b := explore.BFS{MaxDepth: s.depth, Deadline: deadline}
	names := func(hist []int) []string {
		var hn []string
		for _, i := range hist {
			hn = append(hn, s.alpha[i].String())
		}
		return hn
	}
	// Replay cache.  explore.BFS tries all operations of one node consecutively.  When
	// the last transition was a callback that left the model state unchanged (dropped, or
	// acted upon without completing anything: output, error, relay, beacon), the
	// teamserver is still in a state with the node's canonical key — it differs from the
	// node's own state at most in what the key abstracts from anyway (console log
	// length, event list, open downloads, sleep values).  The next operation of the same
	// node is then applied directly instead of resetting and replaying the node's
	// history; this relies on exactly the assumption the de-duplication relies on.  It is
	// done only when the implementation's outstanding lists, queues and active flags
	// compared equal before and after the request, so that a faulty implementation
	// cannot drift away from the node unnoticed.
	var (
		atHist  []int
		atModel *model
		atOK    bool
		reused  int64
	)
	sameNode := func(hist []int) bool {
		if !atOK || len(hist) != len(atHist)+1 {
			return false
		}
		for i := range atHist {
			if atHist[i] != hist[i] {
				return false
			}
		}
		return true
	}
	b.Run(func(hist []int) explore.StepResult {
		var m *model
		ok := true
		start := 0
		if sameNode(hist) {
			m = atModel
			start = len(hist) - 1
			reused++
		} else {
			w.reset()
			m = newModel()
		}
		atOK = false
		for i := start; i < len(hist); i++ {
			oi := hist[i]
			last := i == len(hist)-1
			var before string
			if last {
				before = m.fingerprint()
			}
			res := s.apply(w, m, s.alpha[oi], last)
			if res.bad != "" {
				if last {
					r.Violate("request-failed/"+ev.Normalize(res.bad), res.bad, map[string]any{"send_logs": s.sendLogs, "history": names(hist)})
				}
				ok = false
				break
			}
			if last {
				if res.outcome != "" {
					r.Outcome(res.outcome)
				}
				if res.sig != "" {
					r.Violate(res.sig, res.what, map[string]any{"send_logs": s.sendLogs, "history": names(hist)})
					ok = false
				}
				if res.prune {
					ok = false
				}
				if ok && s.alpha[oi].typ == opCallback && m.fingerprint() == before && !w.coreChanged {
					atHist, atModel, atOK = append([]int{}, hist[:len(hist)-1]...), m, true
				}
			}
		}
		r.Eval(1)
		if ok && len(hist) == s.depth && r.WantSample() && s.alpha[hist[len(hist)-1]].typ == opCallback {
			r.Sample(map[string]any{"send_logs": s.sendLogs, "history": names(hist)})
		}
		return explore.StepResult{Key: m.key() + implKey(w), Enabled: s.enabled(m), OK: ok}
	})
	r.AddStates(b.States, b.Transitions, b.Transitions)
	tag := fmt.Sprintf("bfs/%s/sendlogs=%v/caps=%d,%d", kinds[s.focus].name, s.sendLogs, s.capOut[0], s.capOut[1])
	if s.edits {
		tag = "bfs-queue-edits/" + tag[4:]
	}
	r.Extra[tag] = map[string]any{"states": b.States, "transitions": b.Transitions, "depth_completed": b.Depth, "fixpoint": b.Fixpoint, "replays_from_reset": b.Transitions - reused, "applied_in_place": reused}
	if b.Capped {
		r.NotExhaustive(fmt.Sprintf("%s: history search stopped by the internal deadline after depth %d of %d", tag, b.Depth, s.depth))
	}
}

// implKey: the shape of the implementation's own bookkeeping, appended to the model key.
// Per agent: for every entry of the outstanding-request list the position of the first
// entry with the same id (0,1,2,.. as long as no id is listed twice), and whether the queue
// is empty.  On a tree where the bookkeeping follows the model this is a function of the
// model state and adds no states; where it does not, the two states are kept apart and
// both are explored further (a merged state would hide what the difference leads to).
func implKey(w *world) string {
	var b strings.Builder
	for _, a := range w.ag {
		a.JobsMtx.Lock()
		first := map[uint32]int{}
		b.WriteString("#")
		for i, j := range a.Tasks {
			k, ok := first[j.RequestID]
			if !ok {
				k = i
				first[j.RequestID] = i
			}
			if k != i {
				fmt.Fprintf(&b, "%d=%d,", i, k)
			}
		}
		fmt.Fprintf(&b, "n%d", len(a.Tasks))
		a.JobsMtx.Unlock()
	}
	return b.String()
}
