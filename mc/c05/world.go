package c05

import (
	"fmt"
	"math/rand"
	"net"
	"os"
	"path/filepath"
	"runtime"
	"sort"
	"strings"
	"syscall"

	"Havoc/pkg/agent"

	"verifmc/demonwire"
	"verifmc/seam"
)

// Two directly connected agents with different session keys.
type agentRef struct {
	id   uint32
	key  byte
	name string
}

var agents = [2]agentRef{{0x0000a501, 1, "A"}, {0x0000b502, 2, "B"}}

// world is ONE real teamserver per process, reset between replays.  reset() restores
// every piece of state a replay can touch and then proves it by comparing the full
// snapshot (sessions, SQLite rows, file tree) with the one taken right after
// registration: an unsound reset is a harness panic, never a silent wrong verdict.
type world struct {
	ts         *seam.TS
	sendLogs   bool
	otherFlags bool
	ag         [2]*agent.Agent
	info       [2]agent.AgentInfo
	base       string // snapshot after registration, with and without the SQLite rows
	baseNoDB   string
	dirty      [2]bool

	ln    *net.TCPListener // loopback probe hostile relay payloads name
	port  int
	conns []int // accepted (harness side) sockets, closed at reset

	resets int64
	sends  int64

	cur      seam.Snapshot // view after the last observed request (valid while nothing else ran)
	curValid bool
	// coreChanged: the last observed request changed an outstanding list, a job queue, an
	// active flag or a session id (the part of the state the canonical key is about)
	coreChanged bool
}

func newWorld(sendLogs bool) *world { return newWorldFlags(sendLogs, false) }

// flagTag names the server flags of this world in signatures.
func (w *world) flagTag() string {
	if w.otherFlags {
		return fmt.Sprintf("%v+debug+debug-dev+verbose", w.sendLogs)
	}
	return fmt.Sprint(w.sendLogs)
}

// newWorldFlags: otherFlags switches on every server flag except --send-logs (none of
// them is "agent log forwarding": the exemption of beacon output must not follow them).
func newWorldFlags(sendLogs, otherFlags bool) *world {
	w := &world{sendLogs: sendLogs, otherFlags: otherFlags}
	w.ts = seam.New(seam.Options{SendLogs: sendLogs, OtherFlags: otherFlags})
	for i, x := range agents {
		w.ag[i] = w.ts.MustRegister(x.id, x.key)
		w.info[i] = *w.ag[i].Info
	}
	ln, err := net.Listen("tcp4", "127.0.0.1:0")
	if err != nil {
		panic(err)
	}
	w.ln = ln.(*net.TCPListener)
	w.port = w.ln.Addr().(*net.TCPAddr).Port
	w.ts.Rec.Take()
	w.base = w.ts.Snap(true).String()
	w.baseNoDB = w.ts.Snap(false).String()
	return w
}

func (w *world) close() {
	w.cleanupSockets()
	w.ln.Close()
	w.ts.Close()
}

func (w *world) cleanupSockets() {
	// teamserver side first: its reader goroutine ends on "use of closed connection"
	// (closing the peer first would leave it spinning on EOF)
	for _, a := range w.ag {
		a.PortFwdsMtx.Lock()
		for _, p := range a.PortFwds {
			if p != nil && p.Conn != nil {
				p.Conn.Close()
			}
		}
		a.PortFwds = nil
		a.PortFwdsMtx.Unlock()
	}
	for _, fd := range w.conns {
		syscall.Close(fd)
	}
	w.conns = nil
}

func (w *world) reset() {
	w.resets++
	w.curValid = false
	w.cleanupSockets()
	for i, a := range w.ag {
		// does the SQLite row need restoring? (every request of an agent rewrites its row
		// from the in-memory session, so only Active/Reason/Info/key matter)
		inf := *a.Info
		inf.LastCallIn, inf.FirstCallIn = w.info[i].LastCallIn, w.info[i].FirstCallIn
		w.dirty[i] = w.dirty[i] || !a.Active || a.Reason != "" || inf != w.info[i] ||
			string(a.Encryption.AESKey) != string(seam.Key(agents[i].key)) || a.NameID != fmt.Sprintf("%08x", agents[i].id)
		for _, d := range a.Downloads {
			if d != nil && d.File != nil {
				d.File.Close()
			}
		}
		a.JobsMtx.Lock()
		a.JobQueue, a.Tasks = nil, nil
		a.JobsMtx.Unlock()
		a.Downloads = nil
		a.SocksCli, a.SocksSvr = nil, nil
		a.BofCallbacks = nil
		a.Active, a.Reason = true, ""
		a.TaskedOnce = false
		a.Pivots.Parent, a.Pivots.Links = nil, nil
		a.NameID = fmt.Sprintf("%08x", agents[i].id)
		*a.Info = w.info[i]
		a.Encryption.AESKey = append([]byte{}, seam.Key(agents[i].key)...)
		a.Encryption.AESIv = append([]byte{}, seam.IV(agents[i].key)...)
	}
	w.ts.T.EventsList = nil
	// loot: everything the agents' consoles, downloads and screenshots wrote
	ad := filepath.Join(w.ts.Loot, "agents")
	if es, err := os.ReadDir(ad); err == nil {
		for _, e := range es {
			os.RemoveAll(filepath.Join(ad, e.Name()))
		}
	}
	for i, a := range w.ag {
		if w.dirty[i] {
			w.ts.T.AgentUpdate(a) // the SQLite row (Active, sleep, key …)
			w.dirty[i] = false
		}
	}
	w.ts.Rec.Take()
	w.drainDials()
	// TaskPrepare and the mem-file chunker draw ids from math/rand's global source
	rand.Seed(0x05c05)
	// self-check: sessions and file tree every time, the SQLite rows every 16th time
	full := w.resets%16 == 1
	if got := w.ts.Snap(full).String(); (full && got != w.base) || (!full && got != w.baseNoDB) {
		panic("c05: reset did not restore the initial state:\n got  " + got + "\n want " + w.base)
	}
}

// drainDials counts connections that reached the probe listener.  A loopback connect()
// has completed the handshake when it returns to the dialling handler, so a
// non-blocking accept right after the request is deterministic.
func (w *world) drainDials() int {
	n := 0
	rc, err := w.ln.SyscallConn()
	if err != nil {
		panic(err)
	}
	rc.Control(func(fd uintptr) {
		for {
			nfd, _, err := syscall.Accept4(int(fd), syscall.SOCK_CLOEXEC|syscall.SOCK_NONBLOCK)
			if err != nil {
				return
			}
			n++
			w.conns = append(w.conns, nfd)
		}
	})
	return n
}

// ---- observation of one callback ---------------------------------------------------

// view is everything a dropped callback must leave untouched: every session field
// (outstanding list, downloads, port forwards, links, info, active/reason) and the file
// tree below the teamserver root (loot), job queues included.
func (w *world) view() seam.Snapshot { return w.ts.Snap(false) }

// effects describes what a request did beyond the per-request last-call-in
// bookkeeping ("AgentCallbackSize" is the console line of a hand-out; observed requests
// never hand out, see send).
func (w *world) effects(pre seam.Snapshot) []string {
	var out []string
	for _, e := range seam.Significant(w.ts.Rec.Take()) {
		if e.Call == "AgentCallbackSize" {
			continue
		}
		s := e.String()
		if len(s) > 120 {
			s = s[:120] + "…"
		}
		out = append(out, s)
	}
	post := w.view()
	w.cur, w.curValid = post, true
	w.coreChanged = len(pre.Agents) != len(post.Agents)
	for i := range post.Agents {
		if i < len(pre.Agents) {
			a, b := pre.Agents[i], post.Agents[i]
			if a.ID != b.ID || a.Active != b.Active || fmt.Sprint(a.Tasks) != fmt.Sprint(b.Tasks) || fmt.Sprint(a.Queue) != fmt.Sprint(b.Queue) {
				w.coreChanged = true
			}
			if fmt.Sprint(a) != fmt.Sprint(b) {
				out = append(out, "session-changed("+sessionDiff(a, b)+")")
			}
		}
	}
	if len(pre.Agents) != len(post.Agents) {
		out = append(out, "session-count-changed")
	}
	if d := filesDiff(pre.Files, post.Files); d != "" {
		out = append(out, "files-changed("+d+")")
	}
	if n := w.drainDials(); n > 0 {
		out = append(out, fmt.Sprintf("outbound-dial(x%d)", n))
	}
	return out
}

func sessionDiff(a, b seam.AgentSnap) string {
	var d []string
	add := func(n string, x, y any) {
		if fmt.Sprint(x) != fmt.Sprint(y) {
			d = append(d, n)
		}
	}
	add("id", a.ID, b.ID)
	add("active", a.Active, b.Active)
	add("reason", a.Reason, b.Reason)
	add("tasks", a.Tasks, b.Tasks)
	add("queue", a.Queue, b.Queue)
	add("downloads", a.Downloads, b.Downloads)
	add("parent", a.Parent, b.Parent)
	add("links", a.Links, b.Links)
	add("info", a.Info, b.Info)
	add("portfwds", a.PortFwds, b.PortFwds)
	add("socks", fmt.Sprint(a.SocksCli, a.SocksSvr), fmt.Sprint(b.SocksCli, b.SocksSvr))
	return a.ID + ":" + strings.Join(d, ",")
}

func filesDiff(a, b []string) string {
	am := map[string]bool{}
	for _, x := range a {
		am[x] = true
	}
	var d []string
	for _, x := range b {
		if !am[x] {
			d = append(d, "+"+x)
		}
		delete(am, x)
	}
	for x := range am {
		d = append(d, "-"+x)
	}
	sort.Strings(d)
	if len(d) > 4 {
		d = append(d[:4], "…")
	}
	return strings.Join(d, " ")
}

// effectClasses reduces effects to their kinds (for signatures and outcome classes).
func effectClasses(eff []string) string {
	set := map[string]bool{}
	for _, e := range eff {
		if i := strings.IndexByte(e, '('); i > 0 {
			e = e[:i]
		}
		set[e] = true
	}
	var ks []string
	for k := range set {
		ks = append(ks, k)
	}
	sort.Strings(ks)
	return strings.Join(ks, "+")
}

// ---- driving -------------------------------------------------------------------------

// send posts subs from agent x.  With an empty job queue the callbacks ride in a
// GET_JOB request, as PackageTransmitAll sends them.  While jobs are still queued
// (callback BEFORE hand-out) the package does not ask for jobs (the first callback
// takes the header's command slot, as PackageTransmitNow does), so that the hand-out —
// draining the queue and its "Send Task to Agent" console line — stays a separate
// step and cannot be mistaken for an effect of the callback.
func (w *world) send(x int, subs ...demonwire.Sub) (tasks []demonwire.Task, bad string) {
	w.curValid = false
	// pkg/logr opens the agent's console log for every input and output line and never
	// closes it; the descriptors go away only when a GC cycle finalizes the os.File
	// objects.  Long runs with little garbage would hit RLIMIT_NOFILE (the repository
	// then calls log.Fatal), so force a cycle at a fixed rhythm.
	if w.sends++; w.sends%1024 == 0 {
		runtime.GC()
	}
	k := agents[x].key
	var res seam.Result
	w.ag[x].JobsMtx.Lock()
	queued := len(w.ag[x].JobQueue)
	w.ag[x].JobsMtx.Unlock()
	if queued > 0 && len(subs) > 0 {
		res = w.ts.Post(demonwire.CallbacksOnly(agents[x].id, seam.Key(k), seam.IV(k), subs...))
	} else {
		res = w.ts.Post(demonwire.CheckIn(agents[x].id, seam.Key(k), seam.IV(k), subs...))
	}
	if res.Panic != nil {
		return nil, fmt.Sprintf("panic: %v @ %s", res.Panic, res.Stack)
	}
	if res.Status != 200 {
		return nil, fmt.Sprintf("request failed: status=%d", res.Status)
	}
	// the reply is encrypted under the key the session holds NOW (a check-in reply re-keys)
	tasks, err := demonwire.ReadTasks(res.Body, seam.Key(k), seam.IV(k))
	if err != nil {
		return nil, fmt.Sprintf("reply unreadable: %v", err)
	}
	return tasks, ""
}

// callback = send + observation of the effects.
func (w *world) callback(x int, subs ...demonwire.Sub) (eff []string, tasks []demonwire.Task, bad string) {
	pre := w.cur
	if !w.curValid {
		pre = w.view()
	}
	w.ts.Rec.Take()
	tasks, bad = w.send(x, subs...)
	if bad != "" {
		return nil, nil, bad
	}
	eff = w.effects(pre)
	return eff, tasks, ""
}

// task issues an operator request (DispatchEvent / Session.Input).
func (w *world) task(x int, id uint32, k int) any {
	w.curValid = false
	return w.ts.Task(agents[x].id, fmt.Sprintf("%08x", id), kinds[k].command, kinds[k].info)
}

// post is callback without observation (prefix replay).
func (w *world) post(x int, subs ...demonwire.Sub) string {
	_, bad := w.send(x, subs...)
	return bad
}

// accepts reports whether id is currently in the implementation's outstanding list of
// agent x.  Used ONLY to resolve the model's don't-care cases and to learn the random
// ids of mem-file chunks; the oracle never reads it.
func (w *world) implHas(x int, id uint32) bool {
	a := w.ag[x]
	a.JobsMtx.Lock()
	defer a.JobsMtx.Unlock()
	for _, j := range a.Tasks {
		if j.RequestID == id {
			return true
		}
	}
	return false
}
