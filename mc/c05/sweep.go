package c05

import (
	"fmt"
	"strings"

	"Havoc/pkg/agent"

	"verifmc/demonwire"
	"verifmc/ev"
)

// ---- part 2: the gate, swept over (command id × request id class × body) ---------------
//
// Base state: A has an outstanding sleep (S) and has finally answered a cd (C); B has an
// outstanding proc-list (P).  From A, every command id of the range with every request
// id that is NOT outstanding at A must be dropped (unless exempt).

const (
	idC = 0x000001ff
	idS = 0x00000200
	idP = 0x00000201
)

func (w *world) baseState() string {
	w.reset()
	if p := w.task(0, idC, kCd); p != nil {
		return fmt.Sprint(p)
	}
	if p := w.task(0, idS, kSleep); p != nil {
		return fmt.Sprint(p)
	}
	if p := w.task(1, idP, kProcList); p != nil {
		return fmt.Sprint(p)
	}
	if bad := w.post(0, packet(cFinal, kCd, 0, idC)); bad != "" {
		return bad
	}
	for x := 0; x < 2; x++ { // hand everything out: the sweep's callbacks ride in GET_JOB requests
		if bad := w.post(x); bad != "" {
			return bad
		}
	}
	w.ts.Rec.Take()
	return ""
}

type idClass struct {
	name string
	id   uint32
}

func sweepIDs(thorough bool) []idClass {
	ids := []idClass{
		{"completed", idC}, {"other-agents", idP}, {"never-issued-low", neverLo}, {"never-issued-high", neverHi},
		{"zero", 0}, {"next-to-outstanding", idS + 2}, // idS+1 is P (the other agent's); +2 was never issued
	}
	if thorough {
		ids = append(ids, idClass{"all-ones", 0xffffffff}, idClass{"outstanding-high-bit", idS | 0x80000000}, idClass{"outstanding-byte-swapped", 0x00020000})
	}
	return ids
}

// hostile relay payload: open a reverse port forward to the probe, then "data arrived"
// (PortFwdOpen dials synchronously inside the handler).
func (w *world) dialSubs(cmd uint32, id uint32) []demonwire.Sub {
	open := wr().I32(agent.SOCKET_COMMAND_OPEN).I32(0x99).I32(0).I32(4444).I32(0x0100007f).I32(uint32(w.port)).B
	read := wr().I32(agent.SOCKET_COMMAND_READ).I32(0x99).I32(agent.SOCKET_TYPE_CLIENT).I32(1).Bytes([]byte("GET / HTTP/1.0\r\n\r\n")).B
	return []demonwire.Sub{{Cmd: cmd, ReqID: id, Body: open}, {Cmd: cmd, ReqID: id, Body: read}}
}

func sweepRange(thorough bool) (uint32, []uint32) {
	extra := []uint32{0x80000000 | agent.COMMAND_OUTPUT, 0xffffffff, 0x10000 | agent.COMMAND_SLEEP}
	if thorough {
		return 0x10000, extra
	}
	return 0x2100, extra
}

// sweepBounds records what the sweep and the table enumerate (in the parent process:
// workers' bounds are not merged).
func sweepBounds(r *ev.Run) {
	maxCmd, extra := sweepRange(r.Thorough())
	r.Bounds["sweep_command_ids"] = fmt.Sprintf("0..%#x plus %#x (GET_JOB and DEMON_INIT are request verbs, not callbacks)", maxCmd, extra)
	var idn []string
	for _, c := range sweepIDs(r.Thorough()) {
		idn = append(idn, c.name)
	}
	r.Bounds["sweep_request_id_classes"] = idn
	r.Bounds["sweep_bodies"] = "every catalogue body of that command id (bodies shown to make the handler act when the id is outstanding) plus the reverse-port-forward dial payload; for command ids without catalogue entry {empty, 16 words}"
	var names []string
	for _, rp := range catalogue() {
		if rp.terminal {
			names = append(names, rp.name)
		}
	}
	r.Bounds["completion_table_replies"] = names
}

func runSweep(r *ev.Run, w *world, part, parts int) {
	cat := catalogue()
	byCmd := map[uint32][]reply{}
	for _, c := range cat {
		byCmd[c.cmd] = append(byCmd[c.cmd], c)
	}
	generic := [][]byte{nil, wr().I32(1).I32(1).I32(1).I32(1).I32(1).I32(1).I32(1).I32(1).I32(1).I32(1).I32(1).I32(1).I32(1).I32(1).I32(1).I32(1).B}
	maxCmd, extra := sweepRange(r.Thorough())
	ids := sweepIDs(r.Thorough())

	if bad := w.baseState(); bad != "" {
		r.Violate("sweep/base-state", bad, nil)
		return
	}
	dirty := false
	one := func(cmdID uint32, idc idClass, label string, subs ...demonwire.Sub) {
		if dirty {
			if bad := w.baseState(); bad != "" {
				r.Violate("sweep/base-state", bad, nil)
				return
			}
			dirty = false
		}
		eff, _, bad := w.callback(0, subs...)
		r.Eval(1)
		if bad != "" {
			r.Violate("sweep/request-failed/"+ev.Normalize(bad), bad, map[string]any{"command": cmdID, "request_id": idc.id, "body": label, "send_logs": w.sendLogs})
			dirty = true
			return
		}
		if len(eff) == 0 {
			r.Outcome("sweep/dropped")
			return
		}
		dirty = true
		if exempt(cmdID, w.sendLogs) {
			r.Outcome("sweep/exempt-acted/" + cmdName(cmdID) + "/" + effectClasses(eff))
			return
		}
		r.Violate(fmt.Sprintf("acted-on-unsolicited/id=%s/cmd=%s/sendlogs=%s", idc.name, cmdName(cmdID), w.flagTag()),
			fmt.Sprintf("agent A sent command %d (%s) with request id %08x (%s; outstanding at A is only %08x) and the teamserver acted on it: %s",
				cmdID, label, idc.id, idc.name, idS, strings.Join(eff, "; ")),
			map[string]any{"command": cmdID, "request_id": idc.id, "body": label, "send_logs": w.sendLogs})
	}
	cmds := make([]uint32, 0, maxCmd+8)
	for c := uint32(0); c <= maxCmd; c++ {
		cmds = append(cmds, c)
	}
	cmds = append(cmds, extra...)
	for ci, c := range cmds {
		if ci%parts != part {
			continue
		}
		if c == agent.COMMAND_GET_JOB || c == agent.DEMON_INIT {
			continue // not callbacks: the request's own verb and the reconnect probe (C06)
		}
		for _, idc := range ids {
			if reps, ok := byCmd[c]; ok {
				for _, rp := range reps {
					one(c, idc, rp.name, demonwire.Sub{Cmd: c, ReqID: idc.id, Body: rp.body})
				}
				one(c, idc, "rportfwd-dial-payload", w.dialSubs(c, idc.id)...)
			} else {
				for gi, g := range generic {
					one(c, idc, fmt.Sprintf("generic-%d", gi), demonwire.Sub{Cmd: c, ReqID: idc.id, Body: g})
				}
			}
		}
	}
	if part != 0 {
		w.reset()
		return
	}
	// positive control: with the outstanding id the catalogue bodies do act (otherwise the
	// sweep above proves nothing for that command id)
	for _, rp := range cat {
		if bad := w.baseState(); bad != "" {
			r.Violate("sweep/base-state", bad, nil)
			return
		}
		eff, _, bad := w.callback(0, demonwire.Sub{Cmd: rp.cmd, ReqID: idS, Body: rp.body})
		r.Eval(1)
		if bad != "" {
			r.Violate("sweep/request-failed/"+ev.Normalize(bad), bad, map[string]any{"reply": rp.name})
			continue
		}
		if len(eff) == 0 {
			r.NotExhaustive("catalogue body " + rp.name + " is not acted upon even with an outstanding id: the sweep is blind for it")
			continue
		}
		r.Outcome("control/acted/" + rp.name + "/" + effectClasses(eff))
		if dump {
			fmt.Printf("control %-20s -> %s\n", rp.name, strings.Join(eff, " ; "))
		}
	}
	w.reset()
}

// ---- part 3: completion table ----------------------------------------------------------
//
// For every terminal reply of the catalogue: record a task under a fresh id at A the way
// every producer does (AddJobToQueue), then
//   1. B sends the final reply with that id              -> must be dropped
//   2. A sends a non-final COMMAND_OUTPUT with that id   -> may act (outstanding)
//   3. A sends the final reply                           -> acts; the task is completed
//   4. A replays the same packet                         -> must be dropped
//   5. A sends COMMAND_OUTPUT with that id               -> must be dropped

func runTable(r *ev.Run, w *world) {
	const id = 0x00000300
	for _, rp := range catalogue() {
		if !rp.terminal {
			continue
		}
		w.reset()
		w.curValid = false
		w.ag[0].AddJobToQueue(agent.Job{Command: rp.cmd, RequestID: id, Data: []any{}})
		if bad := w.post(0); bad != "" { // hand-out
			r.Violate("table/request-failed/"+ev.Normalize(bad), bad, nil)
			continue
		}
		fin := demonwire.Sub{Cmd: rp.cmd, ReqID: id, Body: rp.body}
		out := demonwire.Sub{Cmd: agent.COMMAND_OUTPUT, ReqID: id, Body: outputBody()}
		detail := map[string]any{"reply": rp.name, "command": rp.cmd, "send_logs": w.sendLogs}
		ex := exempt(rp.cmd, w.sendLogs)
		step := func(x int, s demonwire.Sub) ([]string, bool) {
			eff, _, bad := w.callback(x, s)
			r.Eval(1)
			if bad != "" {
				r.Violate("table/request-failed/"+ev.Normalize(bad), bad, detail)
				return nil, false
			}
			return eff, true
		}
		// 1
		eff, ok := step(1, fin)
		if !ok {
			continue
		}
		if len(eff) > 0 && !ex {
			r.Violate(fmt.Sprintf("acted-on-unsolicited/id=other-agents/cmd=%s/sendlogs=%s", cmdName(rp.cmd), w.flagTag()),
				fmt.Sprintf("%s reply with an id outstanding at A, sent by B, was acted on: %s", rp.name, strings.Join(eff, "; ")), detail)
			continue
		}
		// 2
		if eff, ok = step(0, out); !ok {
			continue
		}
		if len(eff) > 0 {
			r.Outcome("table/output-while-outstanding/acted")
		} else {
			r.Outcome("table/output-while-outstanding/dropped")
		}
		// 3
		if eff, ok = step(0, fin); !ok {
			continue
		}
		if len(eff) == 0 {
			r.NotExhaustive("table: the " + rp.name + " reply is not acted upon although its id is outstanding (cannot judge completion)")
			continue
		}
		r.Outcome("table/final/" + rp.name + "/" + effectClasses(eff))
		// 4
		replayed := false
		if !ex {
			if eff, ok = step(0, fin); !ok {
				continue
			}
			if len(eff) > 0 {
				replayed = true
				r.Violate("id-accepted-after-final/kind="+rp.name,
					fmt.Sprintf("after the final %s reply (command %d) for request %08x had been processed, the same packet replayed was acted on again: %s", rp.name, rp.cmd, id, strings.Join(eff, "; ")), detail)
			}
		}
		// 5
		if eff, ok = step(0, out); !ok {
			continue
		}
		if len(eff) > 0 && !replayed {
			// the final reply is refused a second time but the id still opens the gate for
			// other callbacks: same class as any other unsolicited id
			r.Violate(fmt.Sprintf("acted-on-unsolicited/id=completed/cmd=OUTPUT/sendlogs=%s", w.flagTag()),
				fmt.Sprintf("after the final %s reply for request %08x had been processed, COMMAND_OUTPUT with that id was acted on: %s", rp.name, id, strings.Join(eff, "; ")), detail)
		}
		if len(eff) == 0 && !replayed {
			r.Outcome("table/forgotten")
		}
	}
	w.reset()
}

var dump = false
