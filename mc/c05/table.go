package c05

import (
	"encoding/base64"

	"Havoc/pkg/agent"

	"verifmc/demonwire"
	"verifmc/seam"
)

// ---- the Demon's replies (payloads/Demon/src/core/Command.c), reference encoder -------

func wr() *demonwire.W { return &demonwire.W{} }

const (
	uploadName = `C:\t\f.bin`
	uploadData = "DATA"
	cdPath     = `C:\t`
)

// task kinds of the history search: issued through the operator path
// (DispatchEvent/Session.Input -> TaskPrepare -> AddJobToQueue).
const (
	kSleep = iota
	kCd
	kProcList
	kCheckin
	kExit
	kJobList
	kUpload
	kPivotList
	nIssuable
	kMemFile = nIssuable // derived: the chunk job an upload queues under its own (random) id
)

type kindDef struct {
	name    string
	command int            // CommandID of the operator request
	info    map[string]any // its parameters
	cmd     uint32         // command id of the Demon's final reply
}

var kinds = [...]kindDef{
	kSleep:     {"sleep", agent.COMMAND_SLEEP, map[string]any{"Arguments": "7;3"}, agent.COMMAND_SLEEP},
	kCd:        {"fs-cd", agent.COMMAND_FS, map[string]any{"SubCommand": "cd", "Arguments": cdPath}, agent.COMMAND_FS},
	kProcList:  {"proc-list", agent.COMMAND_PROC_LIST, map[string]any{"FromProcessManager": "false"}, agent.COMMAND_PROC_LIST},
	kCheckin:   {"checkin", agent.COMMAND_CHECKIN, map[string]any{}, agent.COMMAND_CHECKIN},
	kExit:      {"exit", agent.COMMAND_EXIT, map[string]any{"ExitMethod": "thread"}, agent.COMMAND_EXIT},
	kJobList:   {"job-list", agent.COMMAND_JOB, map[string]any{"Command": "list"}, agent.COMMAND_JOB},
	kUpload:    {"fs-upload", agent.COMMAND_FS, map[string]any{"SubCommand": "upload", "Arguments": b64(uploadName) + ";" + b64(uploadData)}, agent.COMMAND_FS},
	kPivotList: {"pivot-list", agent.COMMAND_PIVOT, map[string]any{"Command": "1"}, agent.COMMAND_PIVOT},
	kMemFile:   {"mem-file", 0, nil, agent.COMMAND_MEM_FILE},
}

func b64(s string) string { return base64.StdEncoding.EncodeToString([]byte(s)) }

// finalBody is the body of the one reply the Demon sends when the task of that kind
// has run (x = index of the replying agent; only the check-in reply depends on it).
func finalBody(kind, x int) []byte {
	switch kind {
	case kSleep: // CommandSleep: the new delay and jitter
		return wr().I32(7).I32(3).B
	case kCd: // CommandFS / FS_CD: sub-command, the path
		return wr().I32(agent.DEMON_COMMAND_FS_CD).WStr(cdPath).B
	case kProcList: // CommandProcList: ui flag, then one record per process
		return wr().I32(0).WStr("p.exe").I32(1234).I32(0).I32(4).I32(1).I32(9).WStr(`DOM\user`).B
	case kCheckin: // CommandCheckin: key, iv and DemonMetaData (same session key, same identity)
		w := wr().Raw(seam.Key(agents[x].key)).Raw(seam.IV(agents[x].key))
		return w.Raw(demonwire.DefaultMeta(agents[x].id).Encode()).B
	case kExit: // CommandExit: the exit method
		return wr().I32(1).B
	case kJobList: // CommandJob / JOB_LIST: sub-command, (id, type, state)*
		return wr().I32(agent.DEMON_COMMAND_JOB_LIST).I32(3).I32(1).I32(1).B
	case kUpload: // CommandFS / FS_UPLOAD: sub-command, size, name
		return wr().I32(agent.DEMON_COMMAND_FS_UPLOAD).I32(uint32(len(uploadData))).WStr(uploadName).B
	case kPivotList: // CommandPivot / PIVOT_LIST with no links
		return wr().I32(agent.DEMON_PIVOT_LIST).B
	case kMemFile: // CommandMemFile: file id, success
		return wr().I32(0x4d46).I32(1).B
	}
	panic("kind")
}

// ---- callback classes of the history search ---------------------------------------------

const (
	cFinal       = iota // the final reply of the task the id belongs (belonged) to
	cCross              // a final reply of ANOTHER kind of task, carrying this id
	cOutput             // COMMAND_OUTPUT (non-final)
	cError              // COMMAND_ERROR / win32 (non-final: the failing command still replies or not; teamserver cannot tell)
	cSocket             // COMMAND_SOCKET / SOCKET_COMMAND_WRITE failure notice (relay kind)
	cPivot              // COMMAND_PIVOT / list (relay kind)
	cBeaconText         // BEACON_OUTPUT / CALLBACK_OUTPUT
	cBeaconFile         // BEACON_OUTPUT / CALLBACK_FILE  (opens a file in the loot tree)
	cFinalFailed        // the final reply of the task in its "did not work" form (a mem-file chunk the agent could not store): as final as the other
	nClasses
)

var className = [...]string{"final", "cross-final", "output", "error-win32", "socket", "pivot-list", "beacon-text", "beacon-file", "final-reporting-failure"}

func outputBody() []byte { return wr().Str("hello from the agent").B }
func errorBody() []byte  { return wr().I32(agent.ERROR_WIN32_LASTERROR).I32(5).B }
func socketBody() []byte {
	// SOCKET_COMMAND_WRITE, socket id, type, success=FALSE, error code
	return wr().I32(agent.SOCKET_COMMAND_WRITE).I32(0x77).I32(agent.SOCKET_TYPE_REVERSE_PROXY).I32(0).I32(10054).B
}
func beaconTextBody() []byte { return wr().I32(agent.CALLBACK_OUTPUT).Str("log line").B }
func beaconFileBody() []byte {
	d := wr().I32(0x51).I32(10).Raw([]byte(`C:\loot\secret.txt`)).B
	return wr().I32(agent.CALLBACK_FILE).Bytes(d).B
}

// crossKind: which other kind's final reply is used for the cross-final class.
func crossKind(kind int) int {
	if kind == kSleep {
		return kCd
	}
	return kSleep
}

// packet builds the sub-package of class c for an id that belongs to a task of kind
// `kind`, sent by agent x.
func packet(c, kind, x int, id uint32) demonwire.Sub {
	switch c {
	case cFinal:
		return demonwire.Sub{Cmd: kinds[kind].cmd, ReqID: id, Body: finalBody(kind, x)}
	case cCross:
		k := crossKind(kind)
		return demonwire.Sub{Cmd: kinds[k].cmd, ReqID: id, Body: finalBody(k, x)}
	case cOutput:
		return demonwire.Sub{Cmd: agent.COMMAND_OUTPUT, ReqID: id, Body: outputBody()}
	case cError:
		return demonwire.Sub{Cmd: agent.COMMAND_ERROR, ReqID: id, Body: errorBody()}
	case cSocket:
		return demonwire.Sub{Cmd: agent.COMMAND_SOCKET, ReqID: id, Body: socketBody()}
	case cPivot:
		return demonwire.Sub{Cmd: agent.COMMAND_PIVOT, ReqID: id, Body: finalBody(kPivotList, x)}
	case cBeaconText:
		return demonwire.Sub{Cmd: agent.BEACON_OUTPUT, ReqID: id, Body: beaconTextBody()}
	case cBeaconFile:
		return demonwire.Sub{Cmd: agent.BEACON_OUTPUT, ReqID: id, Body: beaconFileBody()}
	case cFinalFailed: // CommandMemFile: file id, success = FALSE
		return demonwire.Sub{Cmd: agent.COMMAND_MEM_FILE, ReqID: id, Body: wr().I32(0x4d46).I32(0).B}
	}
	panic("class")
}

// exempt: the statement's exceptions — relay kinds always, beacon output when log
// forwarding is on.
func exempt(cmd uint32, sendLogs bool) bool {
	return cmd == agent.COMMAND_SOCKET || cmd == agent.COMMAND_PIVOT || (cmd == agent.BEACON_OUTPUT && sendLogs)
}

// ---- reply catalogue for the sweep and the completion table ----------------------------

// reply is one kind of callback with a body that makes the handler act when the
// callback is accepted.  terminal: per Command.c the Demon sends exactly one such
// package as the last word of the task it answers.
type reply struct {
	name     string
	cmd      uint32
	body     []byte
	terminal bool
}

func catalogue() []reply {
	fin := func(k int) []byte { return finalBody(k, 0) }
	return []reply{
		// terminal replies (one per task)
		{"sleep", agent.COMMAND_SLEEP, fin(kSleep), true},
		{"fs-cd", agent.COMMAND_FS, fin(kCd), true},
		{"fs-upload", agent.COMMAND_FS, fin(kUpload), true},
		{"fs-remove", agent.COMMAND_FS, wr().I32(agent.DEMON_COMMAND_FS_REMOVE).I32(0).WStr(`C:\t\x`).B, true},
		{"fs-mkdir", agent.COMMAND_FS, wr().I32(agent.DEMON_COMMAND_FS_MKDIR).WStr(`C:\t\d`).B, true},
		{"fs-pwd", agent.COMMAND_FS, wr().I32(agent.DEMON_COMMAND_FS_GET_PWD).WStr(`C:\t`).B, true},
		// a download ends with its close package - whether or not the open was accepted
		// (refused: same file already being fetched, a name that leaves the loot folder) and
		// whether or not any other download is running
		{"fs-download-close-finished", agent.COMMAND_FS, wr().I32(agent.DEMON_COMMAND_FS_DOWNLOAD).I32(2).I32(0x5151).I32(0).B, true},
		{"fs-download-close-removed", agent.COMMAND_FS, wr().I32(agent.DEMON_COMMAND_FS_DOWNLOAD).I32(2).I32(0x5152).I32(1).B, true},
		{"proc-list", agent.COMMAND_PROC_LIST, fin(kProcList), true},
		{"checkin", agent.COMMAND_CHECKIN, fin(kCheckin), true},
		{"exit", agent.COMMAND_EXIT, fin(kExit), true},
		{"job-list", agent.COMMAND_JOB, fin(kJobList), true},
		{"job-suspend", agent.COMMAND_JOB, wr().I32(agent.DEMON_COMMAND_JOB_SUSPEND).I32(3).I32(1).B, true},
		{"job-resume", agent.COMMAND_JOB, wr().I32(agent.DEMON_COMMAND_JOB_RESUME).I32(3).I32(1).B, true},
		{"job-kill", agent.COMMAND_JOB, wr().I32(agent.DEMON_COMMAND_JOB_KILL_REMOVE).I32(3).I32(1).B, true},
		{"inject-dll", agent.COMMAND_INJECT_DLL, wr().I32(0).B, true},
		{"inject-shellcode", agent.COMMAND_INJECT_SHELLCODE, wr().I32(0).B, true},
		{"ppid-spoof", agent.COMMAND_PROC_PPIDSPOOF, wr().I32(4).B, true},
		{"proc-modules", agent.COMMAND_PROC, wr().I32(agent.DEMON_COMMAND_PROC_MODULES).I32(1234).Str("ntdll.dll").I64(0x7ffe0000).B, true},
		{"proc-grep", agent.COMMAND_PROC, wr().I32(agent.DEMON_COMMAND_PROC_GREP).WStr("p.exe").I32(1234).I32(4).WStr("user").I32(64).B, true},
		{"proc-kill", agent.COMMAND_PROC, wr().I32(agent.DEMON_COMMAND_PROC_KILL).I32(1).I32(1234).B, true},
		{"token-impersonate", agent.COMMAND_TOKEN, wr().I32(agent.DEMON_COMMAND_TOKEN_IMPERSONATE).I32(1).Str(`DOM\u`).B, true},
		{"token-steal", agent.COMMAND_TOKEN, wr().I32(agent.DEMON_COMMAND_TOKEN_STEAL).WStr(`DOM\u`).I32(1).I32(1234).B, true},
		{"token-getuid", agent.COMMAND_TOKEN, wr().I32(agent.DEMON_COMMAND_TOKEN_GET_UID).I32(0).WStr(`DOM\u`).B, true},
		{"token-revert", agent.COMMAND_TOKEN, wr().I32(agent.DEMON_COMMAND_TOKEN_REVERT).I32(1).B, true},
		{"token-remove", agent.COMMAND_TOKEN, wr().I32(agent.DEMON_COMMAND_TOKEN_REMOVE).I32(1).I32(2).B, true},
		{"token-clear", agent.COMMAND_TOKEN, wr().I32(agent.DEMON_COMMAND_TOKEN_CLEAR).B, true},
		{"config-memory-alloc", agent.COMMAND_CONFIG, wr().I32(agent.CONFIG_MEMORY_ALLOC).I32(1).B, true},
		{"screenshot-failed", agent.COMMAND_SCREENSHOT, wr().I32(0).B, true},
		{"net-domain", agent.COMMAND_NET, wr().I32(agent.DEMON_NET_COMMAND_DOMAIN).Str("DOM").B, true},
		{"pivot-list", agent.COMMAND_PIVOT, fin(kPivotList), true},
		{"transfer-list", agent.COMMAND_TRANSFER, wr().I32(agent.DEMON_COMMAND_TRANSFER_LIST).B, true},
		{"rportfwd-list", agent.COMMAND_SOCKET, wr().I32(agent.SOCKET_COMMAND_RPORTFWD_LIST).B, true},
		{"rportfwd-clear", agent.COMMAND_SOCKET, wr().I32(agent.SOCKET_COMMAND_RPORTFWD_CLEAR).I32(1).B, true},
		{"assembly-versions", agent.COMMAND_ASSEMBLY_LIST_VERSIONS, wr().WStr("v4.0.30319").B, true},
		{"bof-ran-ok", agent.COMMAND_INLINEEXECUTE, wr().I32(agent.COMMAND_INLINEEXECUTE_RAN_OK).B, true},
		{"bof-could-not-run", agent.COMMAND_INLINEEXECUTE, wr().I32(agent.COMMAND_INLINEEXECUTE_COULD_NO_RUN).B, true},
		{"dotnet-finished", agent.COMMAND_ASSEMBLY_INLINE_EXECUTE, wr().I32(agent.DOTNET_INFO_FINISHED).B, true},
		{"dotnet-failed", agent.COMMAND_ASSEMBLY_INLINE_EXECUTE, wr().I32(agent.DOTNET_INFO_FAILED).B, true},
		{"mem-file", agent.COMMAND_MEM_FILE, fin(kMemFile), true},
		{"kerberos-purge", agent.COMMAND_KERBEROS, wr().I32(agent.KERBEROS_COMMAND_PURGE).I32(1).B, true},
		// replies that are not the last word of a task (output streams, notices,
		// long-lived relays): used by the sweep only
		{"output", agent.COMMAND_OUTPUT, outputBody(), false},
		{"error-win32", agent.COMMAND_ERROR, errorBody(), false},
		{"beacon-text", agent.BEACON_OUTPUT, beaconTextBody(), false},
		{"beacon-file", agent.BEACON_OUTPUT, beaconFileBody(), false},
		{"demon-info", agent.DEMON_INFO, wr().I32(agent.DEMON_INFO_MEM_EXEC).I64(0x1000).I32(7).B, false},
		{"kill-date", agent.COMMAND_KILL_DATE, nil, false},
		{"spawn-dll", agent.COMMAND_SPAWNDLL, wr().I32(0).B, false},
		{"package-dropped", agent.COMMAND_PACKAGE_DROPPED, wr().I32(0x20000).I32(0x10000).B, false},
		{"bof-output", agent.COMMAND_INLINEEXECUTE, wr().I32(agent.CALLBACK_OUTPUT).Str("bof says hi").B, false},
		{"dotnet-patched", agent.COMMAND_ASSEMBLY_INLINE_EXECUTE, wr().I32(agent.DOTNET_INFO_PATCHED).B, false},
		{"socket-write-failed", agent.COMMAND_SOCKET, socketBody(), false},
		{"rportfwd-add", agent.COMMAND_SOCKET, wr().I32(agent.SOCKET_COMMAND_RPORTFWD_ADD).I32(1).I32(0x66).I32(0).I32(4444).I32(0x0100007f).I32(80).B, false},
	}
}
