package c05

import (
	"fmt"
	"sync"

	"Havoc/pkg/agent"

	"verifmc/demonwire"
	"verifmc/ev"
	"verifmc/seam"
)

// runFree is the auxiliary free-running race pass (DESIGN.md 3.5 / 9.6): the bodies of
// the issue-vs-completion scenario - the operator issuing tasks to an agent while the
// listener hands them out and processes their final callbacks, and a second listener
// thread answering with ids that are not outstanding - on real goroutines in a binary
// built with the race detector (plain build).  It decides nothing; tools/race_report.py
// compares the reported locations with the scheduling points of the instrumented build.
func runFree(r *ev.Run) {
	sleep := func(d, j uint32) []byte { w := &demonwire.W{}; w.I32(d).I32(j); return w.B }
	const idS = 0x00c05a51
	for it := 0; it < 40; it++ {
		ts := seam.New(seam.Options{})
		ts.MustRegister(idS, 1)
		var wg sync.WaitGroup
		run := func(f func()) { wg.Add(1); go func() { defer wg.Done(); f() }() }
		run(func() {
			for i := 0; i < 20; i++ {
				ts.Task(idS, fmt.Sprintf("%08x", 0x5100+i), agent.COMMAND_SLEEP, map[string]any{"Arguments": "5;10"})
			}
		})
		run(func() {
			for i := 0; i < 20; i++ {
				ts.CheckIn(idS, 1) // hand-out
				ts.CheckIn(idS, 1, demonwire.Sub{Cmd: agent.COMMAND_SLEEP, ReqID: uint32(0x5100 + i), Body: sleep(uint32(40+i), 3)})
			}
		})
		run(func() {
			for i := 0; i < 20; i++ {
				ts.CheckIn(idS, 1, demonwire.Sub{Cmd: agent.COMMAND_SLEEP, ReqID: uint32(0x7700 + i), Body: sleep(99, 3)})
			}
		})
		wg.Wait()
		ts.Close()
		r.Eval(1)
	}
	r.NotExhaustive("free-running race pass: auxiliary, samples schedules; decides nothing")
}
