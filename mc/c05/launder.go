package c05

import (
	"fmt"
	"net"
	"strings"
	"time"

	"Havoc/pkg/agent"

	"verifmc/demonwire"
	"verifmc/ev"
	"verifmc/seam"
)

// Part 6: relay traffic must not turn an id into an outstanding one.  COMMAND_SOCKET is a
// relay kind: its callbacks are accepted whatever request id they carry.  The history:
// a never-issued id X (and, second run, the id of a completed task) is first refused;
// then the agent reports a client on a reverse port forward and data from it, both
// stamped with X - the teamserver dials the forward target, which here answers one byte
// and closes, so that the teamserver queues the relay's answer for the agent; that task
// is handed out; then the same non-relay callback with X comes again.  It must still be
// refused: what the relays queue is not something the operator issued.
func runLaunder(r *ev.Run) {
	sleep := func(d, j uint32) []byte { w := &demonwire.W{}; w.I32(d).I32(j); return w.B }
	const idS = 0x00c05b52
	for _, variant := range []string{"never-issued", "completed"} {
		ln, err := net.Listen("tcp4", "127.0.0.1:0")
		if err != nil {
			r.NotExhaustive("part 6 not run: " + err.Error())
			return
		}
		go func() { // the forwarded host: answers one byte to whatever arrives, then closes
			for {
				c, err := ln.Accept()
				if err != nil {
					return
				}
				go func() {
					buf := make([]byte, 64)
					c.SetReadDeadline(time.Now().Add(20 * time.Second))
					c.Read(buf)
					c.Write([]byte("!"))
					c.Close()
				}()
			}
		}()
		port := ln.Addr().(*net.TCPAddr).Port
		ts := seam.New(seam.Options{})
		a := ts.MustRegister(idS, 1)
		x := uint32(0xdeadbeef)
		if variant == "completed" {
			x = 0x5c05
			ts.Task(idS, fmt.Sprintf("%08x", x), agent.COMMAND_SLEEP, map[string]any{"Arguments": "5;10"})
			ts.CheckIn(idS, 1)
			ts.CheckIn(idS, 1, demonwire.Sub{Cmd: agent.COMMAND_SLEEP, ReqID: x, Body: sleep(11, 1)})
		}
		acted := func(d uint32) bool {
			ts.Rec.Take()
			ts.CheckIn(idS, 1, demonwire.Sub{Cmd: agent.COMMAND_SLEEP, ReqID: x, Body: sleep(d, 7)})
			hit := a.Info.SleepDelay == int(d)
			for _, e := range ts.Rec.Take() {
				if e.Call == "AgentConsole" && strings.Contains(e.Arg, fmt.Sprintf("%d seconds", d)) {
					hit = true
				}
			}
			return hit
		}
		detail := map[string]any{"variant": variant, "request_id": fmt.Sprintf("%08x", x)}
		if acted(777) {
			// not this part's business (parts 1-3 report it); nothing to compare against
			r.Outcome("launder/" + variant + "/accepted-before-any-relay-traffic")
			ts.Close()
			ln.Close()
			continue
		}
		open := (&demonwire.W{}).I32(agent.SOCKET_COMMAND_OPEN).I32(0x99).I32(0).I32(4444).I32(0x0100007f).I32(uint32(port)).B
		read := (&demonwire.W{}).I32(agent.SOCKET_COMMAND_READ).I32(0x99).I32(agent.SOCKET_TYPE_CLIENT).I32(1).Bytes([]byte("GET / HTTP/1.0\r\n\r\n")).B
		_, first, _ := ts.CheckIn(idS, 1, demonwire.Sub{Cmd: agent.COMMAND_SOCKET, ReqID: x, Body: open}, demonwire.Sub{Cmd: agent.COMMAND_SOCKET, ReqID: x, Body: read})
		// the relay's answer is queued by a reader goroutine of the teamserver: it may already
		// have left with the reply to this very request; otherwise wait for it (bounded; if it
		// does not come the history cannot be built and nothing is judged)
		queued := false
		for _, tk := range first {
			if tk.Cmd == agent.COMMAND_SOCKET {
				queued = true
			}
		}
		for start := time.Now(); !queued && time.Since(start) < 20*time.Second; time.Sleep(2 * time.Millisecond) {
			a.JobsMtx.Lock()
			n := len(a.JobQueue)
			a.JobsMtx.Unlock()
			if n > 0 {
				queued = true
				break
			}
		}
		if !queued {
			r.NotExhaustive("part 6 (" + variant + "): the relay's answer was not queued within 20 s, history not judged")
			ts.Close()
			ln.Close()
			continue
		}
		ts.CheckIn(idS, 1) // hand the relay task out
		r.Eval(1)
		if acted(888) {
			r.Violate("launder/relay-traffic-makes-an-id-outstanding/"+variant, fmt.Sprintf("a callback with the %s request id %08x was refused; after reverse-port-forward traffic stamped with that id it is acted upon (sleep set, console line)", variant, x), detail)
		} else {
			r.Outcome("launder/" + variant + "/still-refused")
		}
		ts.Close()
		ln.Close()
	}
	r.Bounds["launder_variants"] = []string{"never-issued id", "id of a completed task"}
}
