package c05

import (
	"fmt"
	"strings"

	"Havoc/pkg/agent"

	"verifmc/c08"
	"verifmc/demonwire"
	"verifmc/ev"
)

// Part 4: request ids across pivot links.  A task issued to a pivot agent travels
// through its parents' queues; its request id must stay an id of the target only: a
// callback carrying it that comes from a relaying parent, the directly connected
// agent or an unrelated agent is dropped — before, while and after the target's own
// final reply.  Chains root -> C -> G plus an unrelated direct agent's stand-in (the
// root of a second tree is the same code path as the root here).
func runPivotPair(r *ev.Run) {
	sleep := func(d, j uint32) []byte { w := &demonwire.W{}; w.I32(d).I32(j); return w.B }
	type issue struct {
		name string
		do   func(w *c08.World, target uint32, req uint32) any
	}
	issues := []issue{
		{"operator sleep task", func(w *c08.World, t, req uint32) any {
			return w.TS().Task(t, fmt.Sprintf("%08x", req), agent.COMMAND_SLEEP, map[string]any{"Arguments": "5;10"})
		}},
		{"queued job", func(w *c08.World, t, req uint32) any {
			w.TS().Agent(t).AddJobToQueue(agent.Job{Command: agent.COMMAND_SLEEP, RequestID: req, Data: []any{5, 10}})
			return nil
		}},
	}
	n := 0
	for _, is := range issues {
		for target := 1; target <= 2; target++ {
			w, err := c08.Build([]uint32{0xa1, 0xc2, 0xd3}, []int{-1, 0, 1})
			if err != nil {
				r.Violate("pivot/harness", err.Error(), nil)
				continue
			}
			ts := w.TS()
			req := uint32(0x5500 + n)
			if p := is.do(w, w.ID(target), req); p != nil {
				r.Violate("pivot/panic", fmt.Sprint(p), nil)
				ts.Close()
				continue
			}
			// the callback with the target's id, sent by agent `from`; returns whether it was acted upon
			acted := func(from int, d uint32) bool {
				a := ts.Agent(w.ID(from))
				a.Info.SleepDelay = 2
				ts.Rec.Take()
				w.Send(from, demonwire.Sub{Cmd: agent.COMMAND_SLEEP, ReqID: req, Body: sleep(d, 3)})
				hit := a.Info.SleepDelay == int(d)
				for _, e := range ts.Rec.Take() {
					if e.Call == "AgentConsole" && strings.Contains(e.Arg, fmt.Sprintf("%d seconds", d)) {
						hit = true
					}
				}
				return hit
			}
			phase := "outstanding at the target"
			check := func() {
				for from := 0; from <= 2; from++ {
					if from == target {
						continue
					}
					n++
					r.Eval(1)
					role := "descendant"
					if from < target {
						role = "relaying-ancestor"
					}
					if acted(from, uint32(40+from)) {
						r.Violate(fmt.Sprintf("pivot/id-of-another-agent-accepted/from=%s", role),
							fmt.Sprintf("task (%s) issued to pivot agent %08x with request id %x; a callback with that id from agent %08x (%s) was acted upon while the id is %s", is.name, w.ID(target), req, w.ID(from), role, phase),
							map[string]any{"issue": is.name, "target_depth": target, "from_depth": from, "phase": phase})
					} else {
						r.Outcome("pivot/dropped/" + role + "/" + phase)
					}
				}
			}
			check()
			// hand the task out (first hop checks in), then the same question again
			ts.CheckIn(w.ID(0), 1)
			phase = "handed out"
			check()
			// the target's own final reply is accepted exactly once
			if !acted(target, 77) {
				r.Violate("pivot/own-final-reply-dropped", fmt.Sprintf("the final reply of pivot agent %08x to its own outstanding task was not acted upon", w.ID(target)), map[string]any{"issue": is.name, "target_depth": target})
			}
			phase = "completed"
			check()
			if acted(target, 78) {
				r.Violate("pivot/id-accepted-after-final", fmt.Sprintf("pivot agent %08x: the request id was accepted again after its final reply", w.ID(target)), map[string]any{"issue": is.name, "target_depth": target})
			}
			r.Outcome("pivot/ok/" + is.name)
			if r.WantSample() {
				r.Sample(map[string]any{"pivot_chain": "a1 -> c2 -> d3", "target_depth": target, "issue": is.name})
			}
			ts.Close()
		}
	}
}

// runPivotDisconnect: the operator tells a parent to disconnect a pivot child (at depth 1
// and at depth 2); the parent fetches the task and answers "done".  That answer is the
// task's final reply: afterwards its request id is accepted by nobody - not by the parent,
// whose task it was, and not by the child it named.
func runPivotDisconnect(r *ev.Run) {
	sleep := func(d, j uint32) []byte { w := &demonwire.W{}; w.I32(d).I32(j); return w.B }
	for parent := 0; parent <= 1; parent++ {
		w, err := c08.Build([]uint32{0xa1, 0xc2, 0xd3}, []int{-1, 0, 1})
		if err != nil {
			r.Violate("pivot/harness", err.Error(), nil)
			continue
		}
		ts := w.TS()
		child := parent + 1
		req := uint32(0x5700 + parent)
		if p := ts.Task(w.ID(parent), fmt.Sprintf("%08x", req), agent.COMMAND_PIVOT, map[string]any{
			"Command": fmt.Sprint(agent.DEMON_PIVOT_SMB_DISCONNECT), "Param": fmt.Sprintf("%08x", w.ID(child))}); p != nil {
			r.Violate("pivot/panic", fmt.Sprint(p), nil)
			ts.Close()
			continue
		}
		ts.CheckIn(w.ID(0), 1) // the first hop fetches (the task itself, or its wrapper)
		done := (&demonwire.W{}).I32(agent.DEMON_PIVOT_SMB_DISCONNECT).I32(1).I32(w.ID(child)).B
		w.Send(parent, demonwire.Sub{Cmd: agent.COMMAND_PIVOT, ReqID: req, Body: done})
		r.Eval(1)
		for _, from := range []int{parent, child} {
			a := ts.Agent(w.ID(from))
			if from == child {
				a.Active = true // (a disconnected child's session is inactive; the question is the id, not the flag)
			}
			a.Info.SleepDelay = 2
			ts.Rec.Take()
			if from == parent {
				w.Send(from, demonwire.Sub{Cmd: agent.COMMAND_SLEEP, ReqID: req, Body: sleep(uint32(60+from), 3)})
			} else {
				// the child is no longer linked: it would have to reach the teamserver directly
				ts.CheckIn(w.ID(from), byte(from+1), demonwire.Sub{Cmd: agent.COMMAND_SLEEP, ReqID: req, Body: sleep(uint32(60+from), 3)})
			}
			hit := a.Info.SleepDelay == 60+from
			for _, e := range ts.Rec.Take() {
				if e.Call == "AgentConsole" && strings.Contains(e.Arg, fmt.Sprintf("%d seconds", 60+from)) {
					hit = true
				}
			}
			who := map[bool]string{true: "parent", false: "child"}[from == parent]
			if hit {
				r.Violate("pivot/id-accepted-after-final/disconnect/"+who, fmt.Sprintf("the parent %08x answered its 'pivot disconnect %08x' task (request id %x) with success; a later callback with that id from the %s is acted upon", w.ID(parent), w.ID(child), req, who), map[string]any{"parent_depth": parent})
			} else {
				r.Outcome("pivot/disconnect/id-dropped-after-final/" + who)
			}
		}
		ts.Close()
	}
}
