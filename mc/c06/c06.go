// Package c06: "Nothing is given to, or accepted from, an unauthenticated connection".
package c06

import (
	"encoding/hex"
	"encoding/json"
	"errors"
	"fmt"
	"sort"
	"strings"
	"time"

	"Havoc/cmd/server"
	"Havoc/pkg/packager"
	"Havoc/pkg/service"

	"golang.org/x/crypto/sha3"

	"verifmc/ev"
	"verifmc/explore"
	"verifmc/fake"
	"verifmc/seam"
	"verifmc/vsched"
)

func digest(pw string) string {
	h := sha3.New256()
	h.Write([]byte(pw))
	return hex.EncodeToString(h.Sum(nil))
}

type absent struct{}

var abs = absent{}

func put(m map[string]any, k string, v any) {
	if _, ok := v.(absent); !ok {
		m[k] = v
	}
}

type firstMsg struct {
	text     string
	desc     string
	accepted bool
	kind     string // text / binary / close / eof
}

// firstMessages enumerates the shape grammar of first messages.
func firstMessages() []firstMsg {
	var out []firstMsg
	right := digest("pw1")
	events := []any{abs, 0, 1, 2, "1"}
	right2 := digest("pw2")
	users := []any{abs, "op1", "nobody", "", 7, "OP1", "op1 ", "op2"}
	subs := []any{abs, 1, 3, 4}
	infos := []any{abs, nil, map[string]any{}, map[string]any{"User": "op1"}, map[string]any{"Password": right},
		map[string]any{"Password": "00" + right[2:]}, map[string]any{"Password": 7}, map[string]any{"User": "op1", "Password": ""}, map[string]any{"User": "op1", "Password": right[:10]},
		map[string]any{"User": "op1", "Password": right}, map[string]any{"User": "op1", "Password": "wrong"},
		map[string]any{"User": 7, "Password": right},
		// the body names another operator than the head and carries that one's digest
		map[string]any{"User": "op2", "Password": right2}, map[string]any{"User": "op1", "Password": right2}}
	for _, e := range events {
		for _, u := range users {
			for _, s := range subs {
				for _, inf := range infos {
					head := map[string]any{}
					put(head, "Event", e)
					put(head, "User", u)
					body := map[string]any{}
					put(body, "SubEvent", s)
					put(body, "Info", inf)
					doc := map[string]any{"Head": head, "Body": body}
					b, _ := json.Marshal(doc)
					// the one accepted shape: init-connection event, OAuth request, a profile
					// operator, and the SHA3-256 hex digest of that operator's password
					acc := false
					// (the operator is the one named in the head: that is the name the session gets)
					if e == 1 && (u == "op1" || u == "op2") && s == 3 {
						if m, ok := inf.(map[string]any); ok {
							if p, ok := m["Password"].(string); ok && p == map[any]string{"op1": right, "op2": right2}[u] {
								acc = true
							}
						}
					}
					out = append(out, firstMsg{text: string(b), desc: string(b), accepted: acc, kind: "text"})
				}
			}
		}
	}
	for _, t := range []string{"", "{", "null", "[]", "\"x\"", "42", "{\"Head\":7}", "{\"Head\":{\"Event\":1,\"User\":\"op1\"},\"Body\":7}",
		"{\"Head\":{\"Event\":1,\"User\":\"op1\"},\"Body\":{\"SubEvent\":3,\"Info\":7}}", strings.Repeat("A", 5000)} {
		out = append(out, firstMsg{text: t, desc: "raw:" + trunc(t), kind: "text"})
	}
	out = append(out, firstMsg{text: "{\"Head\":{\"Event\":1,\"User\":\"op1\"},\"Body\":{\"SubEvent\":3,\"Info\":{\"User\":\"op1\",\"Password\":\"" + right + "\"}}}", desc: "valid-but-binary-frame", kind: "binary", accepted: true})
	out = append(out, firstMsg{desc: "close-frame", kind: "close"})
	out = append(out, firstMsg{desc: "abrupt-eof", kind: "eof"})
	return out
}

func trunc(s string) string {
	if len(s) > 40 {
		return s[:40] + "…"
	}
	return s
}

// second messages: what a connection might try after its first message
func secondMessages() []struct{ name, text string } {
	mk := func(ev, sub int, info map[string]any) string {
		b, _ := json.Marshal(map[string]any{"Head": map[string]any{"Event": ev, "User": "op1"}, "Body": map[string]any{"SubEvent": sub, "Info": info}})
		return string(b)
	}
	return []struct{ name, text string }{
		{"nothing", ""},
		{"chat", mk(packager.Type.Chat.Type, packager.Type.Chat.NewMessage, map[string]any{"User": "op1", "Message": "aGk="})},
		{"listener-add-smb", mk(packager.Type.Listener.Type, packager.Type.Listener.Add, map[string]any{"Name": "evil", "Protocol": "Smb", "PipeName": "p", "KillDate": "0", "WorkingHours": ""})},
		{"mark-dead", mk(packager.Type.Session.Type, packager.Type.Session.MarkAsDead, map[string]any{"AgentID": "0000a001", "Marked": "Dead"})},
		{"session-input", mk(packager.Type.Session.Type, packager.Type.Session.Input, map[string]any{"DemonID": "0000a001", "TaskID": "00000001", "CommandID": "11", "CommandLine": "sleep", "Arguments": "1;1"})},
		{"garbage", "}{"},
	}
}

type world struct {
	ts     *seam.TS
	online []*fake.WS // connections of operators that are logged in already (second pass of the product)
}

func newWorld() *world {
	ts := seam.New(seam.Options{})
	ts.MustRegister(0xa001, 1)
	// a retained console event, so that a leak of the replay is visible
	ts.T.AgentConsole("0000a001", 0x80, map[string]string{"Type": "Good", "Message": "secret-output"})
	return &world{ts: ts}
}

// newWorldOnline: both operators of the profile are logged in on connections of their
// own.  Nothing an unauthenticated connection sends may touch those sessions.
func newWorldOnline() *world {
	w := newWorld()
	for i, u := range []string{"op1", "op2"} {
		ws := fake.NewWS("V" + u)
		w.ts.T.Clients.Store(fmt.Sprintf("online-%d", i), &server.Client{ClientID: fmt.Sprintf("online-%d", i), Username: u, GlobalIP: "10.1.1.2:5", Connection: ws.Conn, Packager: packager.NewPackager(), Authenticated: true})
		w.online = append(w.online, ws)
	}
	return w
}

func (w *world) stateKey() string {
	var ls []string
	for _, l := range w.ts.T.Listeners {
		ls = append(ls, l.Name)
	}
	auth := 0
	var sessions []string
	w.ts.T.Clients.Range(func(k, v any) bool {
		if v.(*server.Client).Authenticated {
			auth++
			sessions = append(sessions, fmt.Sprintf("%v=%s", k, v.(*server.Client).Username))
		}
		return true
	})
	sort.Strings(sessions)
	var got []int
	for _, ws := range w.online {
		fr, _ := ws.Frames()
		got = append(got, len(fr))
	}
	return fmt.Sprintf("events=%d listeners=%v auth=%d sessions=%v frames-at-online-operators=%v snap=%s", len(w.ts.T.EventsList), ls, auth, sessions, got, w.ts.Snap(true))
}

func addClient(t *server.Teamserver, id string, ws *fake.WS) *server.Client {
	c := &server.Client{Username: "", GlobalIP: "10.1.1.1:50000", Connection: ws.Conn, Packager: packager.NewPackager(), Authenticated: false}
	t.Clients.Store(id, c)
	return c
}

// classify the frames a connection received
func frameSummary(ws *fake.WS) (n int, onlyAuthError bool, desc []string) {
	frames, _ := ws.Frames()
	onlyAuthError = true
	for _, f := range frames {
		if f.Opcode == 8 { // close frame
			desc = append(desc, "close")
			continue
		}
		n++
		var pk packager.Package
		if err := json.Unmarshal(f.Payload, &pk); err != nil {
			desc = append(desc, "undecodable")
			onlyAuthError = false
			continue
		}
		desc = append(desc, fmt.Sprintf("%d/%d", pk.Head.Event, pk.Body.SubEvent))
		if !(pk.Head.Event == packager.Type.InitConnection.Type && pk.Body.SubEvent == packager.Type.InitConnection.Error) {
			onlyAuthError = false
		}
	}
	return
}

// Part 1: first-message product × follow-up menu, sequential.
func runProduct(r *ev.Run) {
	firsts := firstMessages()
	seconds := secondMessages()
	r.Bounds["first_messages"] = len(firsts)
	r.Bounds["second_messages"] = len(seconds)
	for _, online := range []bool{false, true} {
		mk := newWorld
		if online {
			mk = newWorldOnline
		}
		w := mk()
		base := w.stateKey()
		for fi, fm := range firsts {
			for _, sm0 := range append(append([]struct{ name, text string }{}, seconds...), struct{ name, text string }{name: "nothing+close-fails"}) {
				sm := sm0
				// the refused connection's Close() reports an error (a reset peer cannot be sent
				// the farewell): one more environment answer that may change nothing
				closeFails := sm.name == "nothing+close-fails"
				if closeFails {
					sm.name = "nothing"
					if fm.accepted {
						continue
					}
				}
				if online && sm.name != "nothing" && sm.name != "chat" {
					continue // second pass (operators online): the first message and one follow-up
				}
				if fm.accepted && sm.name != "nothing" {
					continue // after a valid login anything may happen: C11/C16 cover it
				}
				ws := fake.NewWS("X")
				if closeFails {
					ws.Raw.CloseErr = errors.New("tls: failed to send closeNotify alert (but connection was closed anyway)")
				}
				switch fm.kind {
				case "text":
					ws.SendText(fm.text)
				case "binary":
					ws.SendBinary([]byte(fm.text))
				case "close":
					ws.SendClose()
				}
				if sm.text != "" {
					ws.SendText(sm.text)
				}
				ws.Raw.ClosePeer()
				id := fmt.Sprintf("cl%04d", fi)
				addClient(w.ts.T, id, ws)
				var pn any
				var frame string
				func() {
					defer func() {
						if p := recover(); p != nil {
							pn = p
							frame = seam.StackTop()
						}
					}()
					w.ts.T.VerifHandleRequest(id)
				}()
				r.Eval(1)
				detail := map[string]any{"first": fm.desc, "second": sm.name}
				dirty := false
				if pn != nil {
					r.Violate("preauth-panic/"+frame+"/"+ev.Normalize(fmt.Sprint(pn)), fmt.Sprintf("first message %s crashes the connection handler (the process, in the running server): %v", fm.desc, pn), detail)
					dirty = true
				}
				n, onlyErr, desc := frameSummary(ws)
				if fm.accepted {
					r.Outcome("accepted")
					dirty = true
				} else {
					if n > 1 || !onlyErr {
						r.Violate("preauth-frames", fmt.Sprintf("unauthenticated connection received frames %v (allowed: at most one InitConnection/Error)", desc), detail)
					}
					after := w.stateKey()
					if after != base && pn == nil {
						r.Violate("preauth-state/"+sm.name+map[bool]string{false: "", true: "/operators-online"}[online], fmt.Sprintf("rejected handshake followed by %q changed the teamserver state", sm.name), map[string]any{"first": fm.desc, "second": sm.name, "before": base, "after": after})
						dirty = true
					}
					r.Outcome(fmt.Sprintf("rejected/frames=%d", n))
				}
				// the refused connection's entry is still in the table (the running server leaves
				// it there until the socket goes): an event the teamserver addresses to operator
				// op1 by name must reach op1's authenticated connection and nobody else
				if online && !fm.accepted && pn == nil && sm.name == "nothing" {
					u := w.online[0]
					// twice: with op1's entry older than the refused one, and - op1 having logged in
					// after the refused attempt - younger (the table is searched in some order)
					for _, order := range []string{"operator-first", "refused-first"} {
						if order == "refused-first" {
							if c, ok := w.ts.T.Clients.Load("online-0"); ok {
								w.ts.T.Clients.Delete("online-0")
								w.ts.T.Clients.Store("online-0", c)
							}
						}
						fu, _ := u.Frames()
						fx, _ := ws.Frames()
						func() {
							defer func() {
								if p := recover(); p != nil {
									r.Violate("harness/targeted-request-panics", fmt.Sprint(p), detail)
								}
							}()
							w.ts.T.DispatchEvent(packager.Package{Head: packager.Head{Event: packager.Type.Listener.Type, User: "op1"}, Body: packager.Body{SubEvent: packager.Type.Listener.Add,
								Info: map[string]any{"Name": "tgt", "Protocol": "Http", "HostBind": "127.0.0.1", "Hosts": "127.0.0.1", "Headers": "", "Uris": "/u1", "HostRotation": "round-robin",
									"PortBind": "1", "PortConn": "1", "HostHeader": "", "UserAgent": "UA", "Secure": "false", "Proxy Enabled": "true"}}})
						}()
						fu2, _ := u.Frames()
						fx2, _ := ws.Frames()
						switch {
						case len(fx2) > len(fx):
							r.Violate("preauth-frames/event-addressed-to-an-operator-by-name", fmt.Sprintf("after the refused first message %s, %d answer(s) to a request of the authenticated operator op1 were written to the refused connection", fm.desc, len(fx2)-len(fx)), detail)
						case len(fu2) == len(fu):
							r.Violate("preauth-state/operator-loses-events-addressed-to-him", fmt.Sprintf("after the refused first message %s, the authenticated operator op1 no longer receives the answers to his own requests (they are addressed to a connection that never authenticated; table order: %s)", fm.desc, order), detail)
						}
					}
					dirty = true
				}
				w.ts.T.Clients.Delete(id)
				if dirty {
					w.ts.Close()
					w = mk()
					base = w.stateKey()
				}
			}
		}
		w.ts.Close()
	}
}

// Part 2: timing of broadcasts relative to the handshake, under the scheduler.
// X never presents valid credentials (silent, or wrong password); a broadcaster
// registers an agent (the new-session event carries the agent's AES key) and logs to
// the console; Y is an authenticated operator.  Every schedule within the bound:
// X's socket carries nothing but at most one InitConnection/Error frame.
func runSchedules(r *ev.Run) {
	if !vsched.Instrumented {
		r.Violate("harness/not-instrumented", "C06 schedules need the sched build", nil)
		return
	}
	bound := 2
	if r.Thorough() {
		bound = 3
	}
	r.Bounds["preemption_bound"] = bound
	right := digest("pw1")
	mkAuth := func(user, pass string) string {
		b, _ := json.Marshal(map[string]any{"Head": map[string]any{"Event": 1, "User": user}, "Body": map[string]any{"SubEvent": 3, "Info": map[string]any{"User": user, "Password": pass}}})
		return string(b)
	}
	type variant struct {
		name string
		x    string // X's first message ("" = silent)
	}
	variants := []variant{{"X silent", ""}, {"X wrong password", mkAuth("op1", "00"+right[2:])}, {"X unknown user", mkAuth("mallory", right)}}
	var totalExec, totalPoints int64
	for vi, v := range variants {
		outcomes := map[string]bool{}
		t := explore.Tree{Bound: bound, Deadline: time.Now().Add(3 * time.Minute)}
		t.Run(func(c *explore.Chooser) {
			w := newWorld()
			defer w.ts.Close()
			x := fake.NewWS("X")
			y := fake.NewWS("Y")
			addClient(w.ts.T, "X", x)
			yc := addClient(w.ts.T, "Y", y)
			yc.Authenticated, yc.Username, yc.ClientID = true, "op2", "Y"
			if v.x != "" {
				x.SendText(v.x)
			}
			s := vsched.New(c, 3000, "Clients", "Authenticated", "Username", "EventsList")
			s.SpinFree = 16 // the loops on these paths parse and wrap, they do not poll (vsched.Sched.SpinFree)
			s.Spawn("handshake-X", func() { w.ts.T.VerifHandleRequest("X") })
			s.Spawn("listener", func() {
				w.ts.Register(0xb002, 2)
				w.ts.T.AgentConsole("0000b002", 0x80, map[string]string{"Type": "Good", "Message": "out"})
			})
			s.Spawn("peer-X", func() { x.Raw.ClosePeer() }) // X goes away at some point
			s.Run()
			n, onlyErr, desc := frameSummary(x)
			ny, _, _ := frameSummary(y)
			obs := fmt.Sprintf("x=%v y=%d", desc, ny)
			outcomes[obs] = true
			detail := map[string]any{"variant": v.name, "choices": c.Choices(), "schedule": s.Trace, "x_frames": desc}
			switch {
			case len(s.Panics) > 0:
				r.Violate("sched/panic/"+ev.Normalize(s.Panics[0]), s.Panics[0], detail)
			case s.Deadlock:
				r.Violate("sched/deadlock", s.DeadlockWhy, detail)
			case n > 1 || !onlyErr:
				r.Violate("sched/event-to-unauthenticated", fmt.Sprintf("%s: the unauthenticated socket received %v (a broadcast reached it)", v.name, desc), detail)
			}
			if r.WantSample() && len(c.Choices()) > 2 && c.Choices()[1] != 0 {
				r.Sample(map[string]any{"variant": v.name, "choices": c.Choices(), "observed": obs})
			}
		})
		if t.Err != nil {
			r.Violate("harness/nondeterminism", t.Err.Error(), nil)
		}
		if t.Capped {
			r.NotExhaustive(fmt.Sprintf("schedule variant %d stopped by the internal deadline", vi))
		}
		totalExec += t.Executions
		totalPoints += t.Points
		for o := range outcomes {
			r.Outcome(fmt.Sprintf("sched/%s/%s", v.name, o))
		}
		r.Extra[fmt.Sprintf("schedules_%d", vi)] = map[string]any{"variant": v.name, "executions": t.Executions, "choice_points": t.Points, "distinct_observations": len(outcomes)}
	}
	r.Eval(int(totalExec))
	r.AddStates(totalPoints, totalPoints, totalExec)
}

// Part 3: the service endpoint dispatches nothing before the service password.
func runService(r *ev.Run) {
	reg := func(pass any, typ string) string {
		b, _ := json.Marshal(map[string]any{"Head": map[string]any{"Type": typ}, "Body": map[string]any{"Password": pass}})
		return string(b)
	}
	firsts := []struct {
		name, text string
		ok         bool
	}{
		{"right", reg("svcpw", "Register"), true},
		{"wrong", reg("nope", "Register"), false},
		{"empty", reg("", "Register"), false},
		{"number", reg(7, "Register"), false},
		{"wrong-type", reg("svcpw", "RegisterAgent"), false},
		{"no-head", `{"Body":{"Password":"svcpw"}}`, false},
		{"non-json", `}{`, false},
		{"array", `[]`, false},
		// messages that leave fields out: whatever an earlier connection sent must not fill them in
		{"empty-object", `{}`, false},
		{"null", `null`, false},
		{"type-only", `{"Head":{"Type":"Register"}}`, false},
		{"empty-head-and-body", `{"Head":{},"Body":{}}`, false},
		{"password-only-null-type", `{"Head":{"Type":null},"Body":{"Password":"svcpw"}}`, false},
	}
	agentMsg, _ := json.Marshal(map[string]any{"Head": map[string]any{"Type": "RegisterAgent"}, "Body": map[string]any{"Agent": map[string]any{
		"Name": "evil", "MagicValue": "0x41414141", "Author": "x", "Description": "d", "Arch": []string{"x64"}, "Formats": []any{}, "SupportedOS": []string{"linux"}, "Commands": []any{}, "BuildingConfig": map[string]any{}}}})
	lstMsg, _ := json.Marshal(map[string]any{"Head": map[string]any{"Type": "Listener"}, "Body": map[string]any{"Type": "ListenerAdd", "Listener": map[string]any{"Name": "evilproto", "Agent": "evil", "Items": []any{}}}})
	exc2, _ := json.Marshal(map[string]any{"Head": map[string]any{"Type": "Listener"}, "Body": map[string]any{"Type": "ListenerAddExC2", "Listener": map[string]any{"Name": "ex", "Endpoint": "ep"}}})
	seconds := []struct{ name, text string }{{"nothing", ""}, {"register-agent", string(agentMsg)}, {"register-listener", string(lstMsg)}, {"add-exc2", string(exc2)}}
	for _, prior := range []bool{false, true} {
		for _, f := range firsts {
			for _, s := range seconds {
				ts := seam.New(seam.Options{Service: true})
				svc := ts.T.Service
				if prior {
					// history: a legitimate service connection presented the password earlier and left
					w0 := fake.NewWS("S0")
					w0.SendText(reg("svcpw", "Register"))
					w0.Raw.ClosePeer()
					func() {
						defer func() { recover() }()
						svc.VerifHandleConnection(w0.Conn)
					}()
				}
				before := svcKey(ts, svc)
				ws := fake.NewWS("S")
				ws.SendText(f.text)
				if s.text != "" {
					ws.SendText(s.text)
				}
				ws.Raw.ClosePeer()
				var pn any
				var frame string
				func() {
					defer func() {
						if p := recover(); p != nil {
							pn = p
							frame = seam.StackTop()
						}
					}()
					svc.VerifHandleConnection(ws.Conn)
				}()
				r.Eval(1)
				detail := map[string]any{"first": f.name, "second": s.name, "after_an_earlier_legitimate_connection": prior}
				if pn != nil && !f.ok {
					r.Violate("service-preauth-panic/"+frame+"/"+ev.Normalize(fmt.Sprint(pn)), fmt.Sprintf("service first message %q crashes the handler: %v", f.name, pn), detail)
				}
				after := svcKey(ts, svc)
				if !f.ok {
					if after != before {
						r.Violate("service-preauth-dispatch/"+s.name+map[bool]string{false: "", true: "/after-a-legitimate-connection"}[prior], fmt.Sprintf("service connection with first message %q had its %q message dispatched", f.name, s.name), map[string]any{"first": f.name, "second": s.name, "after_an_earlier_legitimate_connection": prior, "before": before, "after": after})
					}
					frames, _ := ws.Frames()
					nf := 0
					for _, fr := range frames {
						if fr.Opcode == 8 {
							continue
						}
						nf++
						var m map[string]map[string]any
						if json.Unmarshal(fr.Payload, &m) != nil || m["Body"]["Success"] != false {
							r.Violate("service-preauth-frames", fmt.Sprintf("unauthenticated service connection received %s", trunc(string(fr.Payload))), detail)
						}
					}
					if nf > 1 {
						r.Violate("service-preauth-frames", "unauthenticated service connection received more than one frame", detail)
					}
					r.Outcome("service/rejected/" + s.name)
				} else {
					r.Outcome(fmt.Sprintf("service/accepted/%s/changed=%v", s.name, after != before))
				}
				ts.Close()
			}
		}
	}
}

func svcKey(ts *seam.TS, s *service.Service) string {
	var ag, ls []string
	for _, a := range s.Agents {
		ag = append(ag, a.Name)
	}
	for _, l := range s.Listeners {
		ls = append(ls, l.Name)
	}
	var tl []string
	for _, l := range ts.T.Listeners {
		tl = append(tl, l.Name)
	}
	return fmt.Sprintf("agents=%v listeners=%v clients=%d tslisteners=%v endpoints=%d events=%d", ag, ls, len(s.VerifClients()), tl, len(ts.T.Endpoints), len(ts.T.EventsList))
}

func Run(r *ev.Run) {
	r.Rule = "(1) product of the first-message shape grammar (Head.Event x Head.User x Body.SubEvent x Body.Info incl. missing/ill-typed fields, plus non-JSON, binary, close, EOF) x a menu of follow-up messages through the real per-connection handler on a real gorilla server connection; (2) every schedule within the preemption bound of {handshake of X that never authenticates | listener registering an agent and logging | X's peer closing}; (3) service endpoint first messages x follow-ups. distinct = outcome classes"
	r.Assume("operator profile with two users; gorilla websocket framing is the real library on a scripted in-memory connection")
	runProduct(r)
	runService(r)
	runSchedules(r)
}
