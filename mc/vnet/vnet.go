// Package vnet replaces package net in the instrumented pkg/socks and pkg/agent: type
// aliases for everything those packages use, and Listen/Dial that go through a hook when
// a harness installed one (so that a managed thread never blocks inside a real system
// call).  With no hook installed they are the real functions.
package vnet

import "net"

type (
	Conn     = net.Conn
	Listener = net.Listener
	Addr     = net.Addr
	IP       = net.IP
	TCPAddr  = net.TCPAddr
	TCPConn  = net.TCPConn
	Error    = net.Error
	OpError  = net.OpError
)

var (
	ListenHook func(network, addr string) (net.Listener, error)
	DialHook   func(network, addr string) (net.Conn, error)
)

func Listen(network, addr string) (net.Listener, error) {
	if h := ListenHook; h != nil {
		return h(network, addr)
	}
	return net.Listen(network, addr)
}

func Dial(network, addr string) (net.Conn, error) {
	if h := DialHook; h != nil {
		return h(network, addr)
	}
	return net.Dial(network, addr)
}

var (
	ParseIP      = net.ParseIP
	JoinHostPort = net.JoinHostPort
	SplitHostPort = net.SplitHostPort
)
