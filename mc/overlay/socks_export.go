package socks

// Verification export shim (injected with go build -overlay from /verif).

import "net"

func (s *Socks) VerifHandler() func(s *Socks, conn net.Conn) { return s.handler }
func (s *Socks) VerifAddr() string                             { return s.addr }
