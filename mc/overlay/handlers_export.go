package handlers

// Verification export shim (injected with go build -overlay from /verif; not part of
// the repository).  Thin wrappers around unexported entry points only.

import (
	"bytes"

	"Havoc/pkg/agent"

	"github.com/gin-gonic/gin"
)

func (h *HTTP) VerifRequest(ctx *gin.Context) { h.request(ctx) }
func (h *HTTP) VerifFake404(ctx *gin.Context) { h.fake404(ctx) }

func VerifParseAgentRequest(ts agent.TeamServer, body []byte, ip string) (bytes.Buffer, bool) {
	return parseAgentRequest(ts, body, ip)
}
