package server

// Verification export shim (injected with go build -overlay from /verif).

func (t *Teamserver) VerifHandleRequest(id string) { t.handleRequest(id) }
