package service

// Verification export shim (injected with go build -overlay from /verif).

import "github.com/gorilla/websocket"

func (s *Service) VerifHandleConnection(c *websocket.Conn) { s.handleConnection(c) }
func (s *Service) VerifDispatch(m map[string]map[string]any, c *ClientService) {
	s.dispatch(m, c)
}
func (s *Service) VerifClients() []*ClientService     { return s.clients }
func (s *Service) VerifAddClient(c *ClientService)    { s.clients = append(s.clients, c) }
func (s *Service) VerifAuthenticate(c *ClientService) bool { return s.authenticate(c) }
