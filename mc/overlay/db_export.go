package db

// Verification export shim (injected with go build -overlay from /verif).

// VerifClose closes the underlying database handle (the package has no Close; harnesses
// open thousands of databases per run).
func (db *DB) VerifClose() {
	if db != nil && db.db != nil {
		db.db.Close()
	}
}
