package c03

import (
	"bytes"
	"encoding/binary"
	"fmt"
	"sort"
	"strings"
	"time"

	"Havoc/pkg/agent"
	"Havoc/pkg/packager"

	"verifmc/demonwire"
	"verifmc/ev"
	"verifmc/par"
	"verifmc/seam"
)

// Part 3: registration histories.  Explicit-state BFS over registrations (header id,
// inner id, key), reconnects, check-in callbacks carrying an id, and mark-dead, each
// replayed on a fresh real teamserver through the HTTP listener.  Reference: a map
// id -> (key, metadata) of acknowledged registrations.

type rop struct {
	kind   string // reg, reconnect, checkin, dead
	h, i   uint32 // header id, inner id (reg); agent, carried id (checkin)
	k      byte
	name   string
	dbfail bool
}

func regAlphabet() []rop {
	big := uint32(0x80000001)
	return []rop{
		{kind: "reg", h: 1, i: 1, k: 1, name: "reg(1,1,k1)"},
		{kind: "reg", h: 2, i: 2, k: 2, name: "reg(2,2,k2)"},
		{kind: "reg", h: big, i: big, k: 3, name: "reg(80000001,80000001,k3)"},
		{kind: "reg", h: 1, i: 1, k: 2, name: "reg(1,1,k2) again with another key"},
		{kind: "reg", h: 0, i: 1, k: 1, name: "reg(header 0, inner 1)"},
		{kind: "reg", h: 0, i: 2, k: 2, name: "reg(header 0, inner 2)"},
		{kind: "reg", h: 1, i: 2, k: 1, name: "reg(header 1, inner 2)"},
		{kind: "reg", h: 2, i: 1, k: 2, name: "reg(header 2, inner 1)"},
		// the "no encryption" variant: all-zero key, metadata in the clear
		{kind: "reg", h: 2, i: 2, k: 0, name: "reg(2,2,zero key)"},
		{kind: "reg", h: 2, i: 1, k: 0, name: "reg(header 2, inner 1, zero key)"},
		{kind: "reg", h: big, i: 1, k: 0, name: "reg(header 80000001, inner 1, zero key)"},
		// the database refuses the session's row (disk I/O error): whatever the teamserver
		// answers, "acknowledged" and "a session exists" must go together
		{kind: "reg", h: 2, i: 2, k: 2, dbfail: true, name: "reg(2,2,k2) while the database refuses the row"},
		{kind: "reconnect", h: 1, name: "reconnect(1)"},
		{kind: "reconnect", h: 2, name: "reconnect(2)"},
		{kind: "checkin", h: 1, i: 1, name: "checkin-callback(1 carries 1)"},
		{kind: "checkin", h: 1, i: 2, name: "checkin-callback(1 carries 2)"},
		{kind: "checkin", h: 1, i: 7, name: "checkin-callback(1 carries 7)"},
		{kind: "checkin", h: 2, i: 1, name: "checkin-callback(2 carries 1)"},
		{kind: "dead", h: 1, name: "mark-dead(1)"},
	}
}

type msess struct {
	k    byte
	host string
}

type regWorld struct {
	ts    *seam.TS
	model map[uint32]*msess
	n     int
}

func metaFor(id uint32, host string) demonwire.Meta {
	m := demonwire.DefaultMeta(id)
	m.Host = host
	return m
}

func (w *regWorld) sessionsOf(id uint32) []*agent.Agent {
	var out []*agent.Agent
	for _, a := range w.ts.T.Agents.Agents {
		if a.NameID == fmt.Sprintf("%08x", id) {
			out = append(out, a)
		}
	}
	return out
}

// apply returns (clause, description) of a violated expectation.
func (w *regWorld) apply(o rop) (string, string) {
	w.n++
	switch o.kind {
	case "reg":
		host := fmt.Sprintf("H%d", w.n)
		undo := func() {}
		if o.dbfail {
			var err error
			if undo, err = w.ts.DBFault("TS_Agents", "INSERT"); err != nil {
				return "harness/db-fault", err.Error()
			}
		}
		res := w.ts.Post(demonwire.Register(o.h, seam.Key(o.k), seam.IV(o.k), metaFor(o.i, host)))
		undo()
		if res.Panic != nil {
			return "panic/" + res.Stack, fmt.Sprint(res.Panic)
		}
		_, exists := w.model[o.h]
		switch {
		case o.dbfail && !exists && res.Status != 200:
			// refused because the row could not be written: fine, as long as no session was left behind
		case o.h != 0 && o.h == o.i && !exists:
			// a proper registration: acknowledged with the id under the session key
			want := ackOf(o.h, o.k)
			if res.Status != 200 || !bytes.Equal(res.Body, want) {
				return "register/not-acknowledged", fmt.Sprintf("registration of %08x: status %d body %x, want 200 and the id encrypted under the session key", o.h, res.Status, res.Body)
			}
			w.model[o.h] = &msess{k: o.k, host: host}
		case o.h != 0 && exists:
			// DEMON_INIT from an existing id is a reconnect: answered with the id under the
			// EXISTING session key; nothing about the session changes
			m := w.model[o.h]
			want := ackOf(o.h, m.k)
			if res.Status != 200 || !bytes.Equal(res.Body, want) {
				return "reconnect/reply", fmt.Sprintf("DEMON_INIT from existing %08x: status %d body %x", o.h, res.Status, res.Body)
			}
		default:
			// header id and inner id disagree (or header id 0): not a registration of the sender
			if res.Status == 200 {
				return fmt.Sprintf("register/accepted-with-mismatching-ids/header=%s", zeroOr(o.h)), fmt.Sprintf("registration with header id %08x and inner id %08x was acknowledged", o.h, o.i)
			}
		}
	case "reconnect":
		res := w.ts.Post(demonwire.Header(demonwire.Magic, o.h, demonwire.DemonInit, 0, make([]byte, 8)))
		if res.Panic != nil {
			return "panic/" + res.Stack, fmt.Sprint(res.Panic)
		}
		if m, ok := w.model[o.h]; ok {
			want := ackOf(o.h, m.k)
			if res.Status != 200 || !bytes.Equal(res.Body, want) {
				return "reconnect/reply", fmt.Sprintf("reconnect of %08x: status %d body %x", o.h, res.Status, res.Body)
			}
		} else if res.Status == 200 {
			return "reconnect/unknown-accepted", fmt.Sprintf("reconnect of unknown %08x was acknowledged", o.h)
		}
	case "checkin":
		m, ok := w.model[o.h]
		if !ok {
			return "", ""
		}
		// an outstanding check-in task, then the callback carrying id o.i and fresh key material
		req := uint32(0x3300 + w.n)
		w.ts.Agent(o.h).AddRequest(agent.Job{RequestID: req, Command: agent.COMMAND_CHECKIN})
		host := fmt.Sprintf("C%d", w.n)
		body := append(append([]byte{}, seam.Key(m.k)...), seam.IV(m.k)...)
		body = append(body, metaFor(o.i, host).Encode()...)
		res, _, _ := w.ts.CheckIn(o.h, m.k, demonwire.Sub{Cmd: agent.COMMAND_CHECKIN, ReqID: req, Body: body})
		if res.Panic != nil {
			return "panic/" + res.Stack, fmt.Sprint(res.Panic)
		}
		if o.i == o.h {
			m.host = host // a check-in of the agent itself updates its metadata
		} else if a := w.sessionsOf(o.h); len(a) == 1 && a[0].Info.Hostname == host {
			m.host = host // metadata taken although the id differs: tolerated, the id clause decides
		}
	case "dead":
		if _, ok := w.model[o.h]; !ok {
			return "", ""
		}
		w.ts.T.DispatchEvent(packager.Package{Head: packager.Head{Event: packager.Type.Session.Type, User: "op1"},
			Body: packager.Body{SubEvent: packager.Type.Session.MarkAsDead, Info: map[string]any{"AgentID": fmt.Sprintf("%08x", o.h), "Marked": "Dead"}}})
	}
	return w.invariants()
}

// ackOf: the acknowledgement of a registration is the agent id, encrypted under the session
// key - in the clear for the all-zero "no encryption" key.
func ackOf(h uint32, k byte) []byte {
	if k == 0 {
		return le(h)
	}
	return demonwire.CTR(le(h), seam.Key(k), seam.IV(k))
}

func zeroOr(h uint32) string {
	if h == 0 {
		return "0"
	}
	return "nonzero"
}

func le(v uint32) []byte {
	b := make([]byte, 4)
	binary.LittleEndian.PutUint32(b, v)
	return b
}

func (w *regWorld) invariants() (string, string) {
	seen := map[string]int{}
	for _, a := range w.ts.T.Agents.Agents {
		seen[a.NameID]++
	}
	for id, n := range seen {
		if n > 1 {
			return "identity/two-sessions-share-an-id", fmt.Sprintf("%d sessions have the id %s", n, id)
		}
	}
	var want []string
	for id := range w.model {
		want = append(want, fmt.Sprintf("%08x", id))
	}
	var got []string
	for id := range seen {
		got = append(got, id)
	}
	sort.Strings(want)
	sort.Strings(got)
	if strings.Join(want, ",") != strings.Join(got, ",") {
		return "identity/session-set", fmt.Sprintf("sessions are [%s]; acknowledged registrations are [%s] (an id changed, a session appeared without acknowledgement, or one vanished)", strings.Join(got, ","), strings.Join(want, ","))
	}
	for id, m := range w.model {
		a := w.sessionsOf(id)[0]
		if !bytes.Equal(a.Encryption.AESKey, seam.Key(m.k)) || !bytes.Equal(a.Encryption.AESIv, seam.IV(m.k)) {
			return "identity/key", fmt.Sprintf("session %08x does not hold the key/IV it registered with", id)
		}
		if a.Info.Hostname != m.host {
			return "identity/metadata", fmt.Sprintf("session %08x has hostname %q, the agent sent %q", id, a.Info.Hostname, m.host)
		}
	}
	return "", ""
}

func (w *regWorld) key() string {
	var s []string
	for _, a := range w.ts.T.Agents.Agents {
		k := byte(0)
		for x := byte(1); x <= 3; x++ {
			if bytes.Equal(a.Encryption.AESKey, seam.Key(x)) {
				k = x
			}
		}
		s = append(s, fmt.Sprintf("%s/k%d/%v", a.NameID, k, a.Active))
	}
	sort.Strings(s)
	return strings.Join(s, ";")
}

func runRegHistories(r *ev.Run) par.BFSResult {
	alpha := regAlphabet()
	depth := 4
	dl := 50 * time.Second
	if r.Thorough() {
		depth = 6
		dl = 12 * time.Minute
	}
	r.Bounds["registration_history_depth"] = depth
	all := make([]int, len(alpha))
	for i := range all {
		all[i] = i
	}
	step := func(hist []int) (string, []int, bool) {
		w := &regWorld{ts: seam.New(seam.Options{}), model: map[uint32]*msess{}}
		defer w.ts.Close()
		var hn []string
		for i, oi := range hist {
			o := alpha[oi]
			hn = append(hn, o.name)
			clause, what := w.apply(o)
			if clause != "" {
				if i == len(hist)-1 {
					r.Violate("reghist/"+clause+"/after:"+o.kind, what, map[string]any{"history": hn})
				}
				return "", nil, false
			}
			if i == len(hist)-1 {
				r.Outcome("reghist/ok/" + o.kind)
			}
		}
		r.Eval(1)
		if r.WantSample() && len(hist) == 3 {
			r.Sample(map[string]any{"registration_history": hn})
		}
		return w.key(), all, true
	}
	return par.BFS(r, "c03reg", depth, par.Workers(), time.Now().Add(dl), step)
}
