package c03

// Part 2 of C03: callback -> operator console / session record.
//
// Bounded-exhaustive product  callback kind x slot x value domain  (quick: one slot
// varies at a time plus every pair of neighbouring slots; thorough: every pair of slots
// and every triple of consecutive slots).  Every case runs
// on a fresh real teamserver (seam.New): the agent is registered through the listener,
// a request id is made outstanding, the callback is built with demonwire.W exactly as
// Command.c / Package.c build it (big-endian integers, length-prefixed byte strings,
// UTF-16LE text without terminator for PackageAddWString, with the terminator where
// the Demon sends a BUFFER whose length includes it) and posted as a check-in.
//
// Observed: the console package delivered to operators (recorded AgentConsole call and
// the Session.Output event appended to the teamserver's event list, which must agree)
// and the session record (Agent.Info in memory and the TS_Agents row).
//
// Oracle: the reported value, rendered the way the message renders that slot (decimal,
// hex, text), appears next to its label.  Widths, padding, units rounding and time
// zones are not judged; slots a message deliberately summarises are skipped (listed in
// notes/C03b.md).  The kinds table is in callbacks_kinds.go.

import (
	"encoding/base64"
	"encoding/json"
	"fmt"
	"os"
	"os/exec"
	"path/filepath"
	"regexp"
	"sort"
	"strconv"
	"strings"
	"sync"
	"time"

	"Havoc/pkg/agent"
	"Havoc/pkg/packager"

	"verifmc/demonwire"
	"verifmc/ev"
	"verifmc/par"
	"verifmc/seam"
)

// ---------------------------------------------------------------------------
// values, slots, kinds

type vt int

const (
	tI32   vt = iota // PackageAddInt32, shown as a number
	tFlag            // PackageAddInt32 carrying TRUE/FALSE
	tWord            // PackageAddInt32 carrying a 16-bit WORD (SYSTEMTIME members)
	tEnum            // PackageAddInt32 carrying one of a few constants
	tU64             // PackageAddInt64 / PackageAddPtr, unsigned (pointers, kill date)
	tSize            // PackageAddInt64 carrying a LARGE_INTEGER size (signed, >= 0)
	tBool            // PackageAddBool
	tStr             // PackageAddString / PackageAddBytes of text: bytes, no terminator
	tWStr            // PackageAddWString: UTF-16LE, no terminator
	tWStrZ           // PackageAddBytes( Buffer, Length ) of a wide BUFFER whose Length includes the terminator
	tRaw             // fixed raw bytes without a length prefix (AES key / IV of a check-in)
)

type val struct {
	u uint64
	s string
}

type slot struct {
	name  string
	t     vt
	def   val
	dom   []val // nil: the default domain of the type
	fixed bool  // never varied (sub-command ids, success flags that select the message)
	aux   bool  // not a field of this callback: reported by the preparatory callback of the case (setup)
}

var (
	domI32  = []uint64{0, 1, 0x0102, 1 << 31, 1<<32 - 1}
	domU64  = []uint64{0, 1, 1 << 63, 1<<64 - 1}
	domSize = []uint64{0, 1, 999, 1000, 1234567, 1<<32 - 1, 1 << 32, 1<<63 - 1}
	domWord = []uint64{0, 1, 0x0102, 65535}
	domFlag = []uint64{0, 1}
	long300 = strings.Repeat("A", 300)
	domText = []string{"", "a", "é", `C:\x y\é.txt`, "a😀b", long300, " lead", "trail ", `50%d "q" <&>`}
)

func (s slot) domain() []val {
	if s.dom != nil {
		return s.dom
	}
	var us []uint64
	switch s.t {
	case tI32:
		us = domI32
	case tU64:
		us = domU64
	case tSize:
		us = domSize
	case tWord:
		us = domWord
	case tFlag, tBool:
		us = domFlag
	case tStr, tWStr, tWStrZ:
		var out []val
		for _, x := range domText {
			out = append(out, val{s: x})
		}
		return out
	}
	var out []val
	for _, u := range us {
		out = append(out, val{u: u})
	}
	return out
}

func (s slot) isText() bool { return s.t == tStr || s.t == tWStr || s.t == tWStrZ }

// class names the value for signatures (normalised, never the raw value).
func (s slot) class(v val) string {
	if s.isText() {
		switch {
		case v.s == "":
			return "empty"
		case v.s == long300:
			return "long300"
		case strings.HasPrefix(v.s, " "):
			return "lead-space"
		case strings.HasSuffix(v.s, " "):
			return "trail-space"
		case strings.ContainsAny(v.s, "\r\n"):
			return "multiline"
		case strings.ContainsAny(v.s, "%<&\""):
			return "markup"
		}
		astral, nonASCII := false, false
		for _, r := range v.s {
			if r > 0xffff {
				astral = true
			}
			if r > 0x7f {
				nonASCII = true
			}
		}
		switch {
		case astral:
			return "astral"
		case nonASCII && strings.Contains(v.s, `\`):
			return "path"
		case nonASCII:
			return "non-ascii"
		}
		return "ascii"
	}
	if s.t == tU64 && v.u >= 1<<63 {
		return ">=2^63"
	}
	switch v.u {
	case 0:
		return "0"
	case 1:
		return "1"
	case 1 << 31:
		return "2^31"
	case 1<<32 - 1:
		return "2^32-1"
	case 1 << 32:
		return "2^32"
	case 1 << 63:
		return "2^63"
	case 1<<63 - 1:
		return "2^63-1"
	case 1<<64 - 1:
		return "2^64-1"
	}
	if v == s.def {
		return "default"
	}
	return fmt.Sprintf("%#x", v.u)
}

type vals map[string]val

func (v vals) u(n string) uint64   { return v[n].u }
func (v vals) s(n string) string   { return v[n].s }
func (v vals) dec(n string) string { return strconv.FormatUint(v[n].u, 10) }
func (v vals) hex(n string) string { return strconv.FormatUint(v[n].u, 16) }
func (v vals) on(n string) bool    { return v[n].u != 0 }

type kind struct {
	name  string
	cmd   uint32
	slots []slot
	// setup sends earlier callbacks the kind depends on (a download that a transfer list refers to)
	setup func(c *cbCase, v vals) []demonwire.Sub
	// build overrides the generic field-by-field encoding (fields nested in one byte string)
	build func(v vals) []byte
	// valid: the Demon can produce this combination
	valid  func(v vals) bool
	expect func(v vals, e *exp)
}

func (k *kind) slot(n string) *slot {
	for i := range k.slots {
		if k.slots[i].name == n {
			return &k.slots[i]
		}
	}
	panic("c03 callbacks: kind " + k.name + " has no slot " + n)
}

func encode(slots []slot, v vals) []byte {
	w := &demonwire.W{}
	for _, s := range slots {
		if s.aux {
			continue
		}
		x := v[s.name]
		switch s.t {
		case tI32, tFlag, tWord, tEnum:
			w.I32(uint32(x.u))
		case tU64, tSize:
			w.I64(x.u)
		case tBool:
			w.Bool(x.u != 0)
		case tStr:
			w.Str(x.s)
		case tWStr:
			w.WStr(x.s)
		case tWStrZ:
			w.Bytes(append(demonwire.UTF16LE(x.s), 0, 0))
		case tRaw:
			w.Raw([]byte(x.s))
		}
	}
	return w.B
}

// ---------------------------------------------------------------------------
// observation and expectations

type obs struct {
	msgs []map[string]string // console packages delivered by the callback under test
	a    *agent.Agent
	db   *agent.AgentInfo
}

func (o *obs) texts(field string) []string {
	var out []string
	for _, m := range o.msgs {
		if t, ok := m[field]; ok {
			out = append(out, t)
		}
	}
	return out
}

type check struct {
	slot string
	want string
	fn   func(o *obs) (bool, string)
}

type exp struct {
	cs     []check
	silent bool // the callback deliberately shows nothing (empty output)
}

// scrubRoot is the temp root of the case's teamserver (one case at a time per process):
// it and wall-clock stamps are kept out of replay artefacts.
var scrubRoot string

func short(s string) string {
	if scrubRoot != "" {
		s = strings.ReplaceAll(s, scrubRoot, "<ts-root>")
	}
	s = reClock.ReplaceAllString(s, "<time>")
	if len(s) > 600 {
		return s[:600] + "…"
	}
	return s
}

func (e *exp) add(slot, want string, fn func(o *obs) (bool, string)) {
	e.cs = append(e.cs, check{slot, want, fn})
}

func (e *exp) overTexts(slot, field, want string, pred func(t string) bool) {
	e.add(slot, want, func(o *obs) (bool, string) {
		ts := o.texts(field)
		for _, t := range ts {
			if pred(t) {
				return true, ""
			}
		}
		return false, fmt.Sprintf("%s=%q", field, short(strings.Join(ts, " || ")))
	})
}

// contains: the field holds sub.
func (e *exp) contains(slot, field, sub string) {
	e.overTexts(slot, field, fmt.Sprintf("%s contains %q", field, short(sub)), func(t string) bool { return strings.Contains(t, sub) })
}

// ends: the field ends with sub.
func (e *exp) ends(slot, field, sub string) {
	e.overTexts(slot, field, fmt.Sprintf("%s ends with %q", field, short(sub)), func(t string) bool { return strings.HasSuffix(t, sub) })
}

// equals: the whole field is the value.
func (e *exp) equals(slot, field, text string) {
	e.overTexts(slot, field, fmt.Sprintf("%s == %q", field, short(text)), func(t string) bool { return t == text })
}

func (e *exp) lacks(slot, field, sub string) {
	e.overTexts(slot, field, fmt.Sprintf("%s does not contain %q", field, sub), func(t string) bool { return !strings.Contains(t, sub) })
}

// anyOf: one of the alternatives is contained (two accepted spellings of the same value).
func (e *exp) anyOf(slot, field string, subs ...string) {
	e.overTexts(slot, field, fmt.Sprintf("%s contains one of %q", field, subs), func(t string) bool {
		for _, s := range subs {
			if strings.Contains(t, s) {
				return true
			}
		}
		return false
	})
}

// labelled: some line of the field carries `label ... : value` with the value running
// to the end of the line.
func (e *exp) labelled(slot, field, label, value string) {
	e.overTexts(slot, field, fmt.Sprintf("%s has a line %q : %q", field, label, short(value)), func(t string) bool {
		for _, line := range strings.Split(t, "\n") {
			i := strings.Index(line, label)
			if i < 0 || strings.Trim(line[:i], " \t-") != "" {
				continue
			}
			rest := line[i+len(label):]
			c := strings.Index(rest, ":")
			if c < 0 || strings.TrimSpace(rest[:c]) != "" {
				continue
			}
			got := rest[c+1:]
			got = strings.TrimPrefix(got, " ")
			if got == value {
				return true
			}
		}
		return false
	})
}

// inOrder reports whether the cells occur in line in this order, each as a token
// delimited by blanks or the line ends.  Cells are compared modulo surrounding blanks
// (columns are padded); empty cells are skipped.
func inOrder(line string, cells []string) bool {
	pos := 0
	for _, c := range cells {
		c = strings.Trim(c, " ")
		if c == "" {
			continue
		}
		found := false
		for pos <= len(line) {
			i := strings.Index(line[pos:], c)
			if i < 0 {
				break
			}
			i += pos
			end := i + len(c)
			okL := i == 0 || line[i-1] == ' ' || line[i-1] == '\t'
			okR := end == len(line) || line[end] == ' ' || line[end] == '\t'
			if okL && okR {
				pos = end
				found = true
				break
			}
			pos = i + 1
		}
		if !found {
			return false
		}
	}
	return true
}

// row: some line of the field shows the cells in order.
func (e *exp) row(slot, field string, cells ...string) {
	var shown []string
	for _, c := range cells {
		shown = append(shown, short(c))
	}
	e.overTexts(slot, field, fmt.Sprintf("%s has a row with the cells %q in order", field, shown), func(t string) bool {
		for _, line := range strings.Split(t, "\n") {
			if inOrder(strings.TrimRight(line, "\r"), cells) {
				return true
			}
		}
		return false
	})
}

// wall-clock stamps of a check-in message: kept out of replay artefacts
var reClock = regexp.MustCompile(`\d\d[/-]\d\d[/-]\d{4} \d\d:\d\d:\d\d`)

var reSI = regexp.MustCompile(`(\d+(?:\.\d+)?) ([kMGTPE]?)B`)

// siShows: text (e.g. "1.23 MB") is the size v within the rounding of its unit.
func siShows(text string, v uint64) bool {
	for _, m := range reSI.FindAllStringSubmatch(text, -1) {
		if m[2] == "" {
			if n, err := strconv.ParseUint(m[1], 10, 64); err == nil && n == v {
				return true
			}
			continue
		}
		f, err := strconv.ParseFloat(m[1], 64)
		if err != nil {
			continue
		}
		mult := 1.0
		for i := 0; i <= strings.Index("kMGTPE", m[2]); i++ {
			mult *= 1000
		}
		d := f*mult - float64(v)
		if d < 0 {
			d = -d
		}
		// two decimals of the unit, plus float slack for the 2^63 range
		if d <= 0.00501*mult+float64(v)*1e-12 {
			return true
		}
	}
	return false
}

// size: a line of the field that contains `near` shows the size v in SI units.
func (e *exp) size(slot, field, near string, v uint64) {
	e.overTexts(slot, field, fmt.Sprintf("%s shows the size %d (SI units, rounded) on the line with %q", field, v, short(near)), func(t string) bool {
		for _, line := range strings.Split(t, "\n") {
			if strings.Contains(line, near) && siShows(line, v) {
				return true
			}
		}
		return false
	})
}

// record: a field of the session record.
func (e *exp) record(slot, what string, get func(o *obs) (got, want string)) {
	e.add(slot, "record "+what, func(o *obs) (ok bool, got string) {
		defer func() {
			if p := recover(); p != nil {
				ok, got = false, fmt.Sprintf("%s: the session record is not there (%v)", what, p)
			}
		}()
		g, w := get(o)
		return g == w, fmt.Sprintf("%s: got %q want %q", what, short(g), short(w))
	})
}

// ---------------------------------------------------------------------------
// one case

type cbCase struct {
	idx    int
	k      *kind
	v      vals
	varied []string
	ts     *seam.TS
	a      *agent.Agent
	req    uint32
}

const (
	cbAgent = uint32(0x00c0ffee)
	cbKey   = byte(1)
)

type cbDetail struct {
	Case    int               `json:"case"`
	Kind    string            `json:"kind"`
	Varied  map[string]string `json:"varied"`
	Packet  string            `json:"callback_body_hex"`
	Want    string            `json:"want,omitempty"`
	Got     string            `json:"got,omitempty"`
	Console []string          `json:"console,omitempty"`
}

func (c *cbCase) detail(body []byte) cbDetail {
	d := cbDetail{Case: c.idx, Kind: c.k.name, Varied: map[string]string{}}
	for _, n := range c.varied {
		s := c.k.slot(n)
		x := c.v[n]
		if s.isText() {
			d.Varied[n] = fmt.Sprintf("%+q", short(x.s))
		} else {
			d.Varied[n] = fmt.Sprintf("%#x", x.u)
		}
	}
	h := fmt.Sprintf("%x", body)
	if len(h) > 400 {
		h = h[:400] + "…"
	}
	d.Packet = h
	return d
}

func parseConsoleArg(arg string) (map[string]string, bool) {
	p := strings.SplitN(arg, ",", 3)
	if len(p) < 3 {
		return nil, false
	}
	m := map[string]string{}
	rest := p[2]
	for len(rest) > 0 {
		eq := strings.IndexByte(rest, '=')
		if eq < 0 {
			return nil, false
		}
		q, err := strconv.QuotedPrefix(rest[eq+1:])
		if err != nil {
			return nil, false
		}
		s, err := strconv.Unquote(q)
		if err != nil {
			return nil, false
		}
		m[rest[:eq]] = s
		rest = strings.TrimPrefix(rest[eq+1+len(q):], ";")
	}
	return m, true
}

func consoleEvents(ts *seam.TS, from int) []map[string]string {
	var out []map[string]string
	ts.T.EventsMtx.Lock()
	evs := append([]packager.Package{}, ts.T.EventsList[from:]...)
	ts.T.EventsMtx.Unlock()
	for _, p := range evs {
		if p.Head.Event != packager.Type.Session.Type || p.Body.SubEvent != packager.Type.Session.Output {
			continue
		}
		if fmt.Sprint(p.Body.Info["CommandID"]) != strconv.Itoa(agent.HAVOC_CONSOLE_MESSAGE) {
			continue
		}
		raw, err := base64.StdEncoding.DecodeString(fmt.Sprint(p.Body.Info["Output"]))
		if err != nil {
			continue
		}
		m := map[string]string{}
		if json.Unmarshal(raw, &m) != nil {
			continue
		}
		out = append(out, m)
	}
	return out
}

func mapText(m map[string]string) string {
	ks := make([]string, 0, len(m))
	for k := range m {
		ks = append(ks, k)
	}
	sort.Strings(ks)
	var b strings.Builder
	for _, k := range ks {
		fmt.Fprintf(&b, "%s=%q;", k, short(m[k]))
	}
	return b.String()
}

func sameMaps(a, b []map[string]string) bool {
	if len(a) != len(b) {
		return false
	}
	for i := range a {
		if len(a[i]) != len(b[i]) {
			return false
		}
		for k, v := range a[i] {
			if w, ok := b[i][k]; !ok || w != v {
				return false
			}
		}
	}
	return true
}

// sigFor builds callbacks/<kind>/<slot>/<class>: the slot whose value is not shown and
// the class of its value; when that slot sits at its default the varied slot that
// disturbed it is named too.
func (c *cbCase) sigFor(slotName string) string {
	if slotName == "" || slotName == "*" {
		switch len(c.varied) {
		case 0:
			return "baseline"
		case 1:
			n := c.varied[0]
			return n + "=" + c.k.slot(n).class(c.v[n])
		}
		return strings.Join(c.varied, "+")
	}
	isVaried := false
	for _, n := range c.varied {
		if n == slotName {
			isVaried = true
		}
	}
	var cls string
	found := false
	for i := range c.k.slots {
		if c.k.slots[i].name == slotName {
			cls = c.k.slots[i].class(c.v[slotName])
			found = true
		}
	}
	if !found {
		cls = "fixed"
	}
	sig := slotName + "/" + cls
	if !isVaried {
		if len(c.varied) == 1 {
			n := c.varied[0]
			sig += "/with-" + n + "=" + c.k.slot(n).class(c.v[n])
		} else if len(c.varied) > 1 {
			sig += "/with-" + strings.Join(c.varied, "+")
		}
	}
	return sig
}

func runCase(r *ev.Run, c *cbCase) {
	r.Eval(1)
	k := c.k
	ts := seam.New(seam.Options{})
	defer ts.Close()
	c.ts = ts
	scrubRoot = ts.Root
	c.a = ts.MustRegister(cbAgent, cbKey)
	c.req = 0x5000 + uint32(c.idx&0xfff)
	c.a.AddRequest(agent.Job{RequestID: c.req, Command: k.cmd})

	body := encode(k.slots, c.v)
	if k.build != nil {
		body = k.build(c.v)
	}
	det := c.detail(body)

	if k.setup != nil {
		subs := k.setup(c, c.v)
		if len(subs) > 0 {
			res, _, _ := ts.CheckIn(cbAgent, cbKey, subs...)
			if res.Panic != nil || res.Status != 200 {
				det.Got = fmt.Sprintf("setup check-in: status %d panic %v", res.Status, res.Panic)
				r.Violate("callbacks/"+k.name+"/setup-failed", "the preparatory callbacks of the case were not accepted", det)
				return
			}
		}
	}
	ts.Rec.Take()
	ts.T.EventsMtx.Lock()
	from := len(ts.T.EventsList)
	ts.T.EventsMtx.Unlock()

	res, _, _ := ts.CheckIn(cbAgent, cbKey, demonwire.Sub{Cmd: k.cmd, ReqID: c.req, Body: body})
	if res.Panic != nil {
		det.Got = fmt.Sprint(res.Panic)
		r.Violate("callbacks/"+k.name+"/panic/"+res.Stack+"/"+c.sigFor(""), "the teamserver panics on a callback built the way the Demon builds it: "+ev.Normalize(fmt.Sprint(res.Panic)), det)
		return
	}
	if res.Status != 200 {
		det.Got = fmt.Sprintf("status %d", res.Status)
		r.Violate("callbacks/"+k.name+"/rejected/"+c.sigFor(""), "the check-in carrying the callback was not accepted", det)
		return
	}

	var recorded []map[string]string
	for _, e := range ts.Rec.Take() {
		if e.Call != "AgentConsole" {
			continue
		}
		if m, ok := parseConsoleArg(e.Arg); ok {
			recorded = append(recorded, m)
		}
	}
	delivered := consoleEvents(ts, from)
	o := &obs{a: ts.Agent(cbAgent)}
	// messages without any content (an empty map is sent by handlers that had nothing to say) carry nothing
	for _, m := range delivered {
		if len(m) > 0 {
			o.msgs = append(o.msgs, m)
		}
	}
	for _, m := range o.msgs {
		det.Console = append(det.Console, mapText(m))
	}
	if ts.T.DB != nil {
		for _, d := range ts.T.DB.AgentAll() {
			if d.NameID == fmt.Sprintf("%08x", cbAgent) {
				o.db = d.Info
			}
		}
	}
	if !sameMaps(recorded, delivered) {
		det.Got = fmt.Sprintf("AgentConsole was called with %d message(s), %d console package(s) reached the event list", len(recorded), len(delivered))
		r.Violate("callbacks/"+k.name+"/console-package-differs/"+c.sigFor(""), "the console package delivered to operators is not the message the dispatcher produced", det)
		return
	}

	e := &exp{}
	k.expect(c.v, e)
	if e.silent {
		if len(o.msgs) == 0 {
			r.Outcome("cb/" + k.name + "/nothing-to-show")
		} else {
			r.Outcome("cb/" + k.name + "/shown")
		}
		return
	}
	if len(o.msgs) == 0 && hasConsoleCheck(e) {
		det.Got = "no console message"
		r.Violate("callbacks/"+k.name+"/no-console-message/"+c.sigFor(""), "the callback produced no console message: the reported values never reach the operator", det)
		return
	}
	bad := false
	for _, ck := range e.cs {
		ok, got := ck.fn(o)
		if ok {
			continue
		}
		bad = true
		d := det
		d.Want, d.Got = ck.want, got
		r.Violate("callbacks/"+k.name+"/"+c.sigFor(ck.slot), "a value reported by the agent does not reach the console / session record unaltered: want "+ck.want, d)
	}
	if !bad {
		cls := "baseline"
		if len(c.varied) > 0 {
			n := c.varied[0]
			s := k.slot(n)
			cls = n
			if s.isText() {
				cls += "=" + s.class(c.v[n])
			}
		}
		r.Outcome("cb/" + k.name + "/ok/" + cls)
		if r.WantSample() && len(c.varied) == 1 && c.idx%97 == 5 {
			r.Sample(map[string]any{"callback": k.name, "varied": det.Varied, "console": det.Console})
		}
	}
}

func hasConsoleCheck(e *exp) bool {
	for _, c := range e.cs {
		if !strings.HasPrefix(c.want, "record ") {
			return true
		}
	}
	return false
}

// ---------------------------------------------------------------------------
// enumeration

func defaults(k *kind) vals {
	v := vals{}
	for _, s := range k.slots {
		v[s.name] = s.def
	}
	return v
}

func enumerate(thorough bool) []*cbCase {
	var out []*cbCase
	add := func(k *kind, v vals, varied ...string) {
		if k.valid != nil && !k.valid(v) {
			return
		}
		out = append(out, &cbCase{idx: len(out), k: k, v: v, varied: varied})
	}
	for _, k := range cbKinds() {
		add(k, defaults(k))
		var free []slot
		for _, s := range k.slots {
			if !s.fixed {
				free = append(free, s)
			}
		}
		for _, s := range free {
			for _, x := range s.domain() {
				if x == s.def {
					continue
				}
				v := defaults(k)
				v[s.name] = x
				add(k, v, s.name)
			}
		}
		// quick: pairs of neighbouring slots (a value and what follows it); thorough: every pair
		for i := 0; i < len(free); i++ {
			for j := i + 1; j < len(free); j++ {
				if !thorough && j != i+1 {
					continue
				}
				for _, x := range free[i].domain() {
					if x == free[i].def {
						continue
					}
					for _, y := range free[j].domain() {
						if y == free[j].def {
							continue
						}
						v := defaults(k)
						v[free[i].name] = x
						v[free[j].name] = y
						add(k, v, free[i].name, free[j].name)
					}
				}
			}
		}
		if !thorough {
			continue
		}
		// thorough: every triple of consecutive slots
		for i := 0; i+2 < len(free); i++ {
			a, b, c := free[i], free[i+1], free[i+2]
			for _, x := range a.domain() {
				for _, y := range b.domain() {
					for _, z := range c.domain() {
						if x == a.def || y == b.def || z == c.def {
							continue
						}
						v := defaults(k)
						v[a.name], v[b.name], v[c.name] = x, y, z
						add(k, v, a.name, b.name, c.name)
					}
				}
			}
		}
	}
	return out
}

// ---------------------------------------------------------------------------
// driver: the cases are sharded over worker subprocesses (the teamserver has process
// globals).  A worker is this binary started with VERIF_C03CB_WORKER=i/n; it is served
// from init() so that it runs nothing else of the harness.

func init() {
	w := os.Getenv("VERIF_C03CB_WORKER")
	if w == "" {
		// VERIF_C03_ONLY=callbacks runs part 2 alone (development and detection demos)
		if os.Getenv("VERIF_C03_ONLY") == "callbacks" {
			r := ev.New("C03", "exploration")
			runCallbacks(r)
			os.Exit(r.Finish())
		}
		return
	}
	p := strings.Split(w, "/")
	i, _ := strconv.Atoi(p[0])
	n, _ := strconv.Atoi(p[1])
	r := ev.New("C03", "exploration")
	runCallbackShard(r, i, n)
	if err := r.WritePartial(os.Getenv("VERIF_C03CB_PARTIAL")); err != nil {
		fmt.Fprintln(os.Stderr, "c03 callbacks worker: cannot write partial:", err)
		os.Exit(3)
	}
	os.Exit(0)
}

func cbDeadline(thorough bool) time.Duration {
	if thorough {
		return 8 * time.Minute
	}
	return 60 * time.Second
}

func runCallbackShard(r *ev.Run, i, n int) {
	cases := enumerate(r.Thorough())
	stop := time.Now().Add(cbDeadline(r.Thorough()) - 5*time.Second)
	for _, c := range cases {
		if c.idx%n != i {
			continue
		}
		if time.Now().After(stop) {
			r.NotExhaustive(fmt.Sprintf("callback product: shard %d/%d stopped at the internal deadline before case %d of %d", i, n, c.idx, len(cases)))
			return
		}
		runCase(r, c)
	}
}

func runCallbacks(r *ev.Run) {
	cases := enumerate(r.Thorough())
	kinds := cbKinds()
	nslots := 0
	for _, k := range kinds {
		for _, s := range k.slots {
			if !s.fixed {
				nslots++
			}
		}
	}
	r.Rule += "; part 2: callback kinds x slots x value domains (one slot varies at a time and every pair of neighbouring slots; every pair of slots and every triple of consecutive slots in the thorough tier), each case on a fresh real teamserver through the listener, console package and session record compared with the reported values"
	r.Bounds["callback_kinds"] = len(kinds)
	r.Bounds["callback_slots"] = nslots
	r.Bounds["callback_cases"] = len(cases)
	r.Assume("callback layouts are the transcription of Command.c (PackageAddWString without terminator, token-owner BUFFERs with terminator)", "text domain is valid Unicode; byte strings that are not UTF-8 (OEM console output) are outside the product")
	start := time.Now()
	n := par.Workers()
	if n > len(cases) {
		n = len(cases)
	}
	if n <= 1 {
		runCallbackShard(r, 0, 1)
		return
	}
	dir, err := os.MkdirTemp(os.Getenv("TMPDIR"), "verif-c03cb-")
	if err != nil {
		panic(err)
	}
	defer os.RemoveAll(dir)
	type wres struct {
		err      error
		timedOut bool
		tail     string
	}
	results := make([]wres, n)
	var wg sync.WaitGroup
	for i := 0; i < n; i++ {
		wg.Add(1)
		go func(i int) {
			defer wg.Done()
			part := filepath.Join(dir, fmt.Sprintf("part-%d.json", i))
			errPath := filepath.Join(dir, fmt.Sprintf("err-%d.txt", i))
			cmd := exec.Command(os.Args[0], os.Args[1:]...)
			cmd.Env = append(os.Environ(), fmt.Sprintf("VERIF_C03CB_WORKER=%d/%d", i, n), "VERIF_C03CB_PARTIAL="+part, "GOMAXPROCS=2")
			errf, _ := os.Create(errPath)
			cmd.Stderr, cmd.Stdout = errf, errf
			if err := cmd.Start(); err != nil {
				results[i].err = err
				return
			}
			done := make(chan error, 1)
			go func() { done <- cmd.Wait() }()
			select {
			case results[i].err = <-done:
			case <-time.After(cbDeadline(r.Thorough()) + 20*time.Second):
				results[i].timedOut = true
				cmd.Process.Kill()
				<-done
			}
			errf.Close()
			if results[i].err != nil {
				b, _ := os.ReadFile(errPath)
				t := string(b)
				if len(t) > 3000 {
					t = t[len(t)-3000:]
				}
				results[i].tail = t
			}
		}(i)
	}
	wg.Wait()

	// merge in shard order; for one signature keep the detail of the smallest case index
	comb := ev.Partial{Exhaustive: true, Violations: map[string]*ev.Violation{}, VioCount: map[string]int{}}
	outc := map[string]bool{}
	caseOf := func(v *ev.Violation) int {
		if m, ok := v.Detail.(map[string]any); ok {
			if f, ok := m["case"].(float64); ok {
				return int(f)
			}
		}
		return 1 << 30
	}
	for i := 0; i < n; i++ {
		if results[i].timedOut {
			r.NotExhaustive(fmt.Sprintf("callback product: worker %d/%d killed at the internal deadline", i, n))
			continue
		}
		if results[i].err != nil {
			r.Violate("callbacks/worker-died", fmt.Sprintf("callback worker %d/%d died: %v", i, n, results[i].err), map[string]any{"stderr_tail": results[i].tail})
			continue
		}
		b, err := os.ReadFile(filepath.Join(dir, fmt.Sprintf("part-%d.json", i)))
		var p ev.Partial
		if err == nil {
			err = json.Unmarshal(b, &p)
		}
		if err != nil {
			r.Violate("callbacks/worker-no-result", fmt.Sprintf("callback worker %d/%d wrote no result: %v", i, n, err), nil)
			continue
		}
		comb.Evaluations += p.Evaluations
		for _, o := range p.Outcomes {
			outc[o] = true
		}
		comb.Samples = append(comb.Samples, p.Samples...)
		for s, v := range p.Violations {
			if old, ok := comb.Violations[s]; !ok || caseOf(v) < caseOf(old) {
				comb.Violations[s] = v
			}
			comb.VioCount[s] += p.VioCount[s]
		}
		if !p.Exhaustive {
			comb.Exhaustive = false
		}
		comb.Notes = append(comb.Notes, p.Notes...)
	}
	for o := range outc {
		comb.Outcomes = append(comb.Outcomes, o)
	}
	sort.Strings(comb.Outcomes)
	b, _ := json.Marshal(comb)
	cpath := filepath.Join(dir, "combined.json")
	if err := os.WriteFile(cpath, b, 0o644); err == nil {
		if err := r.MergePartialFile(cpath); err != nil {
			r.Violate("callbacks/merge-failed", err.Error(), nil)
		}
	}
	by := map[string]int{}
	for _, c := range cases {
		by[[]string{"baseline", "one_slot", "two_slots", "three_slots"}[len(c.varied)]]++
	}
	r.Extra["callback_product"] = map[string]any{"kinds": len(kinds), "slots": nslots, "cases": len(cases), "cases_by_varied_slots": by, "workers": n, "seconds": int(time.Since(start).Seconds())}
}
