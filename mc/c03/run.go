// Package c03: "What an agent reports is what the teamserver records and shows".
package c03

import (
	"fmt"

	"verifmc/ev"
	"verifmc/par"
)

func Run(r *ev.Run) {
	r.Rule = "part 1: every reader x every domain value x 0..17 trailing bytes x 3 fillings x both endiannesses, CanIRead over all type lists of length<=3 x every truncation; part 3: explicit-state BFS over registration / reconnect / check-in-callback / mark-dead histories on ids {1,2,0,80000001}, every transition replayed on a fresh real teamserver through the listener, against a map of acknowledged registrations. distinct = distinct (reader,result-class) pairs and outcome classes"
	r.Assume("the Demon's package layout is the demonwire transcription of Package.c / Demon.c", "ids {1, 2, 0, 0x80000001} and three keys stand for all ids and keys")
	if par.InBFSWorker() == "" {
		runReaders(r)
		runCallbacks(r)
		runLarge(r)
		r.Rule += "; part 4: requests of several MiB of output (one package beyond the Demon's 3 MiB mark, several that pass or straddle it), every output compared with the console"
	}
	res := runRegHistories(r)
	r.Extra["registration_histories"] = map[string]any{"states": res.States, "transitions": res.Transitions, "depth_completed": res.Depth, "new_states_by_depth": res.ByDepth}
	if res.Capped {
		r.NotExhaustive(fmt.Sprintf("registration-history BFS stopped by the internal deadline after depth %d", res.Depth))
	}
}
