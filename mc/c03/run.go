// Package c03: "What an agent reports is what the teamserver records and shows".
package c03

import "verifmc/ev"

func Run(r *ev.Run) {
	r.Rule = "part 1: every reader x every domain value x 0..17 trailing bytes x 3 fillings x both endiannesses, CanIRead over all type lists of length<=3 x every truncation; outcomes are distinct (reader,result-class) pairs"
	runReaders(r)
}
