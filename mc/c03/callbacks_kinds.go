package c03

// The table of callback kinds of part 2: for every kind the fields in wire order (as
// Command.c adds them to the package) and, per slot, where the operator reads the value.

import (
	"encoding/base64"
	"encoding/json"
	"fmt"
	"regexp"
	"strconv"
	"strings"

	"Havoc/pkg/agent"

	"verifmc/demonwire"
	"verifmc/seam"
)

func sI32(n string, def uint32) slot { return slot{name: n, t: tI32, def: val{u: uint64(def)}} }
func sFix(n string, v uint32) slot {
	return slot{name: n, t: tI32, def: val{u: uint64(v)}, fixed: true}
}
func sFlag(n string, def uint32) slot { return slot{name: n, t: tFlag, def: val{u: uint64(def)}} }
func sWord(n string, def uint32) slot { return slot{name: n, t: tWord, def: val{u: uint64(def)}} }
func sU64(n string, def uint64) slot  { return slot{name: n, t: tU64, def: val{u: def}} }
func sSize(n string, def uint64) slot { return slot{name: n, t: tSize, def: val{u: def}} }
func sStr(n, def string) slot         { return slot{name: n, t: tStr, def: val{s: def}} }
func sWStr(n, def string) slot        { return slot{name: n, t: tWStr, def: val{s: def}} }
func sWStrZ(n, def string) slot       { return slot{name: n, t: tWStrZ, def: val{s: def}} }
func sFixBool(n string, v bool) slot {
	return slot{name: n, t: tBool, def: val{u: b2u(v)}, fixed: true}
}
func sBool(n string, def bool) slot   { return slot{name: n, t: tBool, def: val{u: b2u(def)}} }
func sFixWStr(n, v string) slot       { return slot{name: n, t: tWStr, def: val{s: v}, fixed: true} }
func sFixWStrZ(n, v string) slot      { return slot{name: n, t: tWStrZ, def: val{s: v}, fixed: true} }
func sFixStr(n, v string) slot        { return slot{name: n, t: tStr, def: val{s: v}, fixed: true} }
func sFixU64(n string, v uint64) slot { return slot{name: n, t: tU64, def: val{u: v}, fixed: true} }
func sRaw(n string, b []byte) slot {
	return slot{name: n, t: tRaw, def: val{s: string(b)}, fixed: true}
}
func sEnum(n string, def uint32, dom ...uint32) slot {
	s := slot{name: n, t: tEnum, def: val{u: uint64(def)}}
	for _, d := range dom {
		s.dom = append(s.dom, val{u: uint64(d)})
	}
	return s
}

func (s slot) texts(xs ...string) slot {
	s.dom = nil
	for _, x := range xs {
		s.dom = append(s.dom, val{s: x})
	}
	return s
}

func (s slot) plus(xs ...string) slot {
	d := s.domain()
	for _, x := range xs {
		d = append(d, val{s: x})
	}
	s.dom = d
	return s
}

func (s slot) nums(xs ...uint64) slot {
	s.dom = nil
	for _, x := range xs {
		s.dom = append(s.dom, val{u: x})
	}
	return s
}

func sAux(s slot) slot { s.aux = true; return s }

func b2u(b bool) uint64 {
	if b {
		return 1
	}
	return 0
}

// names that can be created as one file below the download directory
var domFileName = []string{"a", "é", `C:\x y\é.txt`, "a😀b", strings.Repeat("A", 200), " lead", "trail ", `50%d "q" <&>`}

// search paths end in the wildcard (Command.c FS::Dir appends `\*`)
var domDirPath = []string{`*`, `a\*`, `é\*`, `C:\x y\é\*`, `a😀b\*`, long300 + `\*`, ` lead\*`}

func ipString(v uint64) string {
	return fmt.Sprintf("%d.%d.%d.%d", v&0xff, (v>>8)&0xff, (v>>16)&0xff, (v>>24)&0xff)
}

func lastComponent(p string) string {
	if i := strings.LastIndex(p, `\`); i >= 0 {
		return p[i+1:]
	}
	return p
}

var reDate = regexp.MustCompile(`(\d+)/(\d+)/(\d+)\s+(\d+):(\d+)`)

// dateShown: a line containing `near` shows day/month/year hour:minute with these numbers.
func dateShown(text, near string, d, mo, y, h, mi uint64) bool {
	for _, line := range strings.Split(text, "\n") {
		if !strings.Contains(line, near) {
			continue
		}
		for _, m := range reDate.FindAllStringSubmatch(line, -1) {
			ok := true
			for i, want := range []uint64{d, mo, y, h, mi} {
				got, err := strconv.ParseUint(m[i+1], 10, 64)
				if err != nil || got != want {
					ok = false
				}
			}
			if ok {
				return true
			}
		}
	}
	return false
}

func protName(v uint64) []string {
	switch v {
	case 0x04:
		return []string{"RW", "PAGE_READWRITE"}
	case 0x20:
		return []string{"RX", "PAGE_EXECUTE_READ"}
	case 0x40:
		return []string{"RWX", "PAGE_EXECUTE_READWRITE"}
	}
	return nil
}

func metaSlots() []slot {
	return []slot{
		sFix("DemonID", cbAgent),
		sStr("Hostname", "HOST"), sStr("Username", "user"), sStr("Domain", "DOM"), sStr("InternalIP", "10.0.0.5"),
		sWStr("ProcessPath", `C:\Windows\p.exe`),
		sI32("PID", 1234), sI32("TID", 77), sI32("PPID", 4), sFix("ProcessArch", 2), sFlag("Elevated", 1),
		sU64("BaseAddress", 0x7ff600000000),
		sI32("OsMajor", 10), sI32("OsMinor", 0), sI32("OsProduct", 1), sI32("OsSP", 0), sI32("OsBuild", 19045),
		sFix("OsArch", 9), sI32("Sleep", 2), sI32("Jitter", 15), sU64("KillDate", 0x65f0_0000), sI32("WorkingHours", 0x0050a8f1),
	}
}

func cbKinds() []*kind {
	var t []*kind
	add := func(k *kind) { t = append(t, k) }

	// --- text output ---------------------------------------------------------------------
	outText := func(name string, cmd uint32, wide bool, pre ...slot) {
		s := sStr("text", "whoami: dom\\user").plus("l1\r\nl2\tend")
		if wide {
			s = sWStr("text", "whoami: dom\\user").plus("l1\r\nl2\tend")
		}
		add(&kind{name: name, cmd: cmd, slots: append(pre, s), expect: func(v vals, e *exp) {
			if v.s("text") == "" {
				e.silent = true // an empty output is deliberately not shown
				return
			}
			e.equals("text", "Output", v.s("text"))
		}})
	}
	outText("OUTPUT", agent.COMMAND_OUTPUT, false)
	outText("BEACON_OUTPUT/OUTPUT", agent.BEACON_OUTPUT, false, sFix("type", agent.CALLBACK_OUTPUT))
	outText("BEACON_OUTPUT/OUTPUT_OEM", agent.BEACON_OUTPUT, true, sFix("type", agent.CALLBACK_OUTPUT_OEM))
	outText("BEACON_OUTPUT/ERROR", agent.BEACON_OUTPUT, false, sFix("type", agent.CALLBACK_ERROR))
	add(&kind{name: "INLINEEXECUTE/OUTPUT", cmd: agent.COMMAND_INLINEEXECUTE,
		slots: []slot{sFix("type", agent.CALLBACK_OUTPUT), sStr("text", "bof output").plus("l1\r\nl2\tend")},
		expect: func(v vals, e *exp) {
			if v.s("text") == "" {
				e.silent = true
				return
			}
			e.equals("text", "Output", v.s("text"))
		}})
	add(&kind{name: "INLINEEXECUTE/SYMBOL_NOT_FOUND", cmd: agent.COMMAND_INLINEEXECUTE,
		slots:  []slot{sFix("type", agent.COMMAND_INLINEEXECUTE_SYMBOL_NOT_FOUND), sStr("symbol", "KERNEL32$Nope")},
		expect: func(v vals, e *exp) { e.ends("symbol", "Message", "not found: "+v.s("symbol")) }})
	add(&kind{name: "INLINEEXECUTE/EXCEPTION", cmd: agent.COMMAND_INLINEEXECUTE,
		slots: []slot{sFix("type", agent.COMMAND_INLINEEXECUTE_EXCEPTION), sI32("exception", 0xC0000005), sU64("address", 0x7ff6deadbeef)},
		expect: func(v vals, e *exp) {
			e.contains("exception", "Message", "["+v.hex("exception")+"]")
			e.ends("address", "Message", "at address "+v.hex("address"))
		}})

	// --- sleep -----------------------------------------------------------------------------
	add(&kind{name: "SLEEP", cmd: agent.COMMAND_SLEEP, slots: []slot{sI32("delay", 7), sI32("jitter", 3)},
		expect: func(v vals, e *exp) {
			e.contains("delay", "Message", " "+v.dec("delay")+" seconds")
			e.contains("jitter", "Message", " "+v.dec("jitter")+"% jitter")
			e.record("delay", "Info.SleepDelay", func(o *obs) (string, string) { return strconv.Itoa(o.a.Info.SleepDelay), v.dec("delay") })
			e.record("jitter", "Info.SleepJitter", func(o *obs) (string, string) { return strconv.Itoa(o.a.Info.SleepJitter), v.dec("jitter") })
			e.record("delay", "TS_Agents.SleepDelay", func(o *obs) (string, string) { return strconv.Itoa(o.db.SleepDelay), v.dec("delay") })
			e.record("jitter", "TS_Agents.SleepJitter", func(o *obs) (string, string) { return strconv.Itoa(o.db.SleepJitter), v.dec("jitter") })
		}})

	// --- file system -------------------------------------------------------------------------
	fsPath := func(name string, sub uint32, label string) {
		add(&kind{name: name, cmd: agent.COMMAND_FS, slots: []slot{sFix("sub", sub), sWStr("path", `C:\t\d`)},
			expect: func(v vals, e *exp) { e.ends("path", "Message", label+v.s("path")) }})
	}
	fsPath("FS/CD", agent.DEMON_COMMAND_FS_CD, "directory: ")
	fsPath("FS/GET_PWD", agent.DEMON_COMMAND_FS_GET_PWD, "directory: ")
	fsPath("FS/MKDIR", agent.DEMON_COMMAND_FS_MKDIR, "directory: ")
	add(&kind{name: "FS/REMOVE", cmd: agent.COMMAND_FS, slots: []slot{sFix("sub", agent.DEMON_COMMAND_FS_REMOVE), sFlag("isdir", 1), sWStr("path", `C:\t\d`)},
		expect: func(v vals, e *exp) {
			if v.on("isdir") {
				e.ends("isdir", "Message", "directory: "+v.s("path"))
			} else {
				e.ends("isdir", "Message", "file: "+v.s("path"))
			}
			e.ends("path", "Message", ": "+v.s("path"))
		}})
	add(&kind{name: "FS/CAT", cmd: agent.COMMAND_FS,
		slots: []slot{sFix("sub", agent.DEMON_COMMAND_FS_CAT), sWStr("file", `C:\t\a.txt`), sFix("success", 1), sStr("content", "hello\nworld").plus("l1\r\nl2\tend")},
		expect: func(v vals, e *exp) {
			e.contains("file", "Message", "of "+v.s("file")+" (")
			e.equals("content", "Output", v.s("content"))
		}})
	for _, cm := range []struct {
		n   string
		sub uint32
	}{{"FS/COPY", agent.DEMON_COMMAND_FS_COPY}, {"FS/MOVE", agent.DEMON_COMMAND_FS_MOVE}} {
		add(&kind{name: cm.n, cmd: agent.COMMAND_FS, slots: []slot{sFix("sub", cm.sub), sFix("success", 1), sWStr("from", `C:\a`), sWStr("to", `D:\b`)},
			expect: func(v vals, e *exp) {
				e.contains("from", "Message", "file "+v.s("from")+" to ")
				e.ends("to", "Message", " to "+v.s("to"))
			}})
	}
	add(&kind{name: "FS/UPLOAD", cmd: agent.COMMAND_FS, slots: []slot{sFix("sub", agent.DEMON_COMMAND_FS_UPLOAD), sI32("size", 10), sWStr("file", `C:\t\up.bin`)},
		expect: func(v vals, e *exp) {
			e.contains("file", "Message", "file: "+v.s("file")+" (")
			e.ends("size", "Message", " ("+v.dec("size")+")")
		}})

	dirHead := func(explorer, listOnly bool) []slot {
		return []slot{sFix("sub", agent.DEMON_COMMAND_FS_DIR), sFixBool("explorer", explorer), sFixBool("listonly", listOnly), sFixWStr("start", `C:\t\*`), sFixBool("found", true)}
	}
	dirItem := func() []slot {
		return []slot{sWStr("name", "a.txt"), sBool("isdir", false), sSize("size", 1234), sWord("day", 2), sWord("month", 10), sWord("year", 2026), sWord("minute", 5), sWord("hour", 13),
			// a second entry follows
			sFixWStr("name2", "zz-next"), sFixBool("isdir2", true), slot{name: "size2", t: tSize, fixed: true}, sFix("day2", 3), sFix("month2", 11), sFix("year2", 2025), sFix("minute2", 59), sFix("hour2", 23)}
	}
	dirRoot := []slot{sWStr("root", `C:\t\*`).texts(domDirPath...), sI32("nfiles", 2), sI32("ndirs", 2), sSize("total", 1234)}
	// two entries follow the root: the counts announce at least that many (the reader takes a
	// shortfall for the start of another directory, which the Demon never produces)
	dirValid := func(v vals) bool { return v.u("nfiles")+v.u("ndirs") >= 2 }
	add(&kind{name: "FS/DIR/console", cmd: agent.COMMAND_FS, slots: append(append(dirHead(false, false), dirRoot...), dirItem()...), valid: dirValid,
		expect: func(v vals, e *exp) {
			name := v.s("name")
			e.contains("root", "Output", "Directory of "+v.s("root")+":")
			e.contains("nfiles", "Output", " "+v.dec("nfiles")+" File(s)")
			e.contains("ndirs", "Output", " "+v.dec("ndirs")+" Folder(s)")
			e.size("total", "Output", "File(s)", v.u("total"))
			if strings.TrimRight(name, " ") != "" { // an empty name leaves nothing to look for
				e.overTexts("name", "Output", fmt.Sprintf("Output has an entry line ending with the name %q", short(name)), func(t string) bool {
					for _, line := range strings.Split(t, "\n") {
						if strings.HasSuffix(strings.TrimRight(line, " "), " "+strings.TrimRight(name, " ")) && reDate.MatchString(line) {
							return true
						}
					}
					return false
				})
			}
			near := strings.TrimRight(name, " ")
			if near == "" {
				near = "/"
			}
			e.overTexts("date", "Output", "the entry line shows day/month/year hour:minute as reported", func(t string) bool {
				return dateShown(t, near, v.u("day"), v.u("month"), v.u("year"), v.u("hour"), v.u("minute"))
			})
			if v.on("isdir") {
				e.overTexts("isdir", "Output", "the entry line is marked <DIR>", func(t string) bool {
					for _, line := range strings.Split(t, "\n") {
						if strings.Contains(line, near) && strings.Contains(line, "<DIR>") && dateShown(line, near, v.u("day"), v.u("month"), v.u("year"), v.u("hour"), v.u("minute")) {
							return true
						}
					}
					return false
				})
			} else {
				e.overTexts("size", "Output", fmt.Sprintf("the entry line shows the size %d and no <DIR>", v.u("size")), func(t string) bool {
					for _, line := range strings.Split(t, "\n") {
						if strings.Contains(line, near) && !strings.Contains(line, "<DIR>") && reDate.MatchString(line) && siShows(reDate.ReplaceAllString(line, ""), v.u("size")) {
							return true
						}
					}
					return false
				})
			}
			e.overTexts("next-entry", "Output", "the following entry zz-next is shown as a directory of 03/11/2025 23:59", func(t string) bool {
				for _, line := range strings.Split(t, "\n") {
					if strings.HasSuffix(strings.TrimRight(line, " "), " zz-next") && strings.Contains(line, "<DIR>") && dateShown(line, "zz-next", 3, 11, 2025, 23, 59) {
						return true
					}
				}
				return false
			})
		}})
	// the date parts are reported together: they form one slot group named "date" in signatures
	add(&kind{name: "FS/DIR/explorer", cmd: agent.COMMAND_FS, slots: append(append(dirHead(true, false), dirRoot...), dirItem()...), valid: dirValid,
		expect: func(v vals, e *exp) {
			type fileRow struct{ Type, Size, Modified, Name string }
			decode := func(o *obs) (path string, files []fileRow, ok bool) {
				for _, m := range o.msgs {
					if m["MiscType"] != "FileExplorer" {
						continue
					}
					raw, err := base64.StdEncoding.DecodeString(m["MiscData"])
					if err != nil {
						return "", nil, false
					}
					var d struct {
						Path  []byte
						Files []fileRow
					}
					if json.Unmarshal(raw, &d) != nil {
						return "", nil, false
					}
					return string(d.Path), d.Files, true
				}
				return "", nil, false
			}
			first := func(o *obs) (fileRow, string) {
				p, f, ok := decode(o)
				if !ok || len(f) < 1 {
					return fileRow{}, fmt.Sprintf("explorer data: ok=%v path=%q files=%d", ok, short(p), len(f))
				}
				return f[0], ""
			}
			e.add("root", "explorer Path is the reported root", func(o *obs) (bool, string) {
				p, _, ok := decode(o)
				return ok && p == v.s("root"), fmt.Sprintf("Path=%q", short(p))
			})
			e.add("name", "explorer Files[0].Name is the reported name", func(o *obs) (bool, string) {
				f, why := first(o)
				return why == "" && f.Name == v.s("name"), why + fmt.Sprintf("Name=%q", short(f.Name))
			})
			e.add("isdir", "explorer Files[0].Type says whether it is a directory", func(o *obs) (bool, string) {
				f, why := first(o)
				return why == "" && (f.Type == "dir") == v.on("isdir"), why + fmt.Sprintf("Type=%q", f.Type)
			})
			if !v.on("isdir") {
				e.add("size", "explorer Files[0].Size shows the reported size", func(o *obs) (bool, string) {
					f, why := first(o)
					return why == "" && siShows(f.Size, v.u("size")), why + fmt.Sprintf("Size=%q", f.Size)
				})
			}
			e.add("date", "explorer Files[0].Modified shows the reported date", func(o *obs) (bool, string) {
				f, why := first(o)
				return why == "" && dateShown(f.Modified, "", v.u("day"), v.u("month"), v.u("year"), v.u("hour"), v.u("minute")), why + fmt.Sprintf("Modified=%q", f.Modified)
			})
			e.add("next-entry", "explorer Files[1] is the following entry", func(o *obs) (bool, string) {
				_, f, ok := decode(o)
				if !ok || len(f) != 2 {
					return false, fmt.Sprintf("files=%d", len(f))
				}
				return f[1].Name == "zz-next" && f[1].Type == "dir" && dateShown(f[1].Modified, "", 3, 11, 2025, 23, 59), fmt.Sprintf("%+v", f[1])
			})
		}})
	add(&kind{name: "FS/DIR/listonly", cmd: agent.COMMAND_FS,
		slots: append(dirHead(false, true), sWStr("root", `C:\t\*`).texts(domDirPath...), sFix("nfiles", 1), sFix("ndirs", 1), sWStr("name", "a.txt"), sFixWStr("name2", "zz-next")),
		expect: func(v vals, e *exp) {
			root := strings.TrimSuffix(v.s("root"), "*")
			e.contains("name", "Output", root+v.s("name")+"\n")
			e.contains("root", "Output", root+v.s("name")+"\n")
			e.contains("next-entry", "Output", root+"zz-next\n")
		}})

	add(&kind{name: "FS/DOWNLOAD/open", cmd: agent.COMMAND_FS,
		slots: []slot{sFix("sub", agent.DEMON_COMMAND_FS_DOWNLOAD), sFix("mode", 0), sI32("fileid", 0x79), sSize("size", 2048), sWStr("file", `C:\Users\x\new.txt`).texts(domFileName...)},
		expect: func(v vals, e *exp) {
			e.contains("file", "Message", "file: "+v.s("file")+" [")
			e.size("size", "Message", "[", v.u("size"))
			e.overTexts("file", "MiscData2", "MiscData2 starts with the base64 of the file name", func(t string) bool {
				return strings.HasPrefix(t, base64.StdEncoding.EncodeToString([]byte(v.s("file")))+";")
			})
			dl := func(o *obs) *agent.Download {
				if len(o.a.Downloads) == 1 {
					return o.a.Downloads[0]
				}
				return &agent.Download{FileID: -1, TotalSize: -1, FilePath: fmt.Sprintf("<%d downloads>", len(o.a.Downloads))}
			}
			e.record("fileid", "download.FileID", func(o *obs) (string, string) { return strconv.Itoa(dl(o).FileID), v.dec("fileid") })
			e.record("size", "download.TotalSize", func(o *obs) (string, string) { return strconv.FormatInt(dl(o).TotalSize, 10), v.dec("size") })
			e.record("file", "download.FilePath", func(o *obs) (string, string) { return dl(o).FilePath, v.s("file") })
		}})

	// --- transfers ------------------------------------------------------------------------------
	add(&kind{name: "TRANSFER/LIST", cmd: agent.COMMAND_TRANSFER,
		slots: []slot{sFix("sub", agent.DEMON_COMMAND_TRANSFER_LIST), sI32("fileid", 0x77), sFix("read", 512), sEnum("state", 1, 1, 2, 3),
			// reported by the download's open callback (setup), shown by the list
			slot{name: "total", t: tSize, def: val{u: 4096}, aux: true}, sAux(sWStr("file", `C:\Users\x\dl.bin`).texts(domFileName...))},
		setup: func(c *cbCase, v vals) []demonwire.Sub {
			c.a.AddRequest(agent.Job{RequestID: 0x4ffe, Command: agent.COMMAND_FS})
			w := &demonwire.W{}
			w.I32(agent.DEMON_COMMAND_FS_DOWNLOAD).I32(0).I32(uint32(v.u("fileid"))).I64(v.u("total")).WStr(v.s("file"))
			return []demonwire.Sub{{Cmd: agent.COMMAND_FS, ReqID: 0x4ffe, Body: w.B}}
		},
		expect: func(v vals, e *exp) {
			st := map[uint64]string{1: "Running", 2: "Stopped", 3: "Removed"}[v.u("state")]
			e.row("fileid", "Output", v.hex("fileid"), st, v.s("file"))
			e.row("state", "Output", v.hex("fileid"), st)
			e.row("file", "Output", v.hex("fileid"), v.s("file"))
			e.size("total", "Output", " "+v.hex("fileid")+" ", v.u("total"))
		}})
	for _, tr := range []struct {
		n   string
		sub uint32
	}{{"TRANSFER/STOP", agent.DEMON_COMMAND_TRANSFER_STOP}, {"TRANSFER/RESUME", agent.DEMON_COMMAND_TRANSFER_RESUME}, {"TRANSFER/REMOVE", agent.DEMON_COMMAND_TRANSFER_REMOVE}} {
		add(&kind{name: tr.n, cmd: agent.COMMAND_TRANSFER, slots: []slot{sFix("sub", tr.sub), sFlag("found", 1), sI32("fileid", 0x77)},
			expect: func(v vals, e *exp) {
				e.anyOf("fileid", "Message", " "+v.hex("fileid")+":", "download: "+v.hex("fileid"))
			}})
	}
	add(&kind{name: "BEACON_OUTPUT/FILE", cmd: agent.BEACON_OUTPUT,
		slots: []slot{sFix("type", agent.CALLBACK_FILE), sI32("fileid", 0x79), sI32("length", 2048), sStr("file", "boffile.bin").texts(domFileName...)},
		build: func(v vals) []byte {
			in := &demonwire.W{}
			in.I32(uint32(v.u("fileid"))).I32(uint32(v.u("length"))).Raw([]byte(v.s("file")))
			w := &demonwire.W{}
			return w.I32(agent.CALLBACK_FILE).Bytes(in.B).B
		},
		expect: func(v vals, e *exp) {
			e.contains("file", "Message", "file: "+v.s("file")+" [")
			e.ends("length", "Message", " ["+v.dec("length")+"]")
			dl := func(o *obs) *agent.Download {
				if len(o.a.Downloads) == 1 {
					return o.a.Downloads[0]
				}
				return &agent.Download{FileID: -1, TotalSize: -1, FilePath: fmt.Sprintf("<%d downloads>", len(o.a.Downloads))}
			}
			e.record("fileid", "download.FileID", func(o *obs) (string, string) { return strconv.Itoa(dl(o).FileID), v.dec("fileid") })
			e.record("length", "download.TotalSize", func(o *obs) (string, string) { return strconv.FormatInt(dl(o).TotalSize, 10), v.dec("length") })
			e.record("file", "download.FilePath", func(o *obs) (string, string) { return dl(o).FilePath, v.s("file") })
		}})

	// --- processes --------------------------------------------------------------------------------
	add(&kind{name: "PROC/CREATE", cmd: agent.COMMAND_PROC,
		slots: []slot{sFix("sub", agent.DEMON_COMMAND_PROC_CREATE), sWStr("path", `C:\Windows\System32\cmd.exe`), sI32("pid", 4242), sFlag("success", 1), sFix("piped", 0), sFix("verbose", 1)},
		expect: func(v vals, e *exp) {
			e.contains("path", "Message", "Path:["+v.s("path")+"]")
			if v.on("success") {
				e.contains("pid", "Message", "ProcessID:["+v.dec("pid")+"]")
				e.contains("success", "Message", "started")
				e.lacks("success", "Message", "not")
			} else {
				e.contains("success", "Message", "not")
			}
		}})
	add(&kind{name: "PROC/KILL", cmd: agent.COMMAND_PROC, slots: []slot{sFix("sub", agent.DEMON_COMMAND_PROC_KILL), sFix("success", 1), sI32("pid", 800)},
		expect: func(v vals, e *exp) { e.ends("pid", "Message", "process: "+v.dec("pid")) }})
	add(&kind{name: "PROC/GREP", cmd: agent.COMMAND_PROC,
		slots: []slot{sFix("sub", agent.DEMON_COMMAND_PROC_GREP), sWStr("name", "lsass.exe"), sI32("pid", 700), sI32("ppid", 500), sWStrZ("user", `NT AUTHORITY\SYSTEM`), sEnum("arch", 64, 64, 86),
			sFixWStr("name2", "zz-next.exe"), sFix("pid2", 4321), sFix("ppid2", 8765), sFixWStrZ("user2", `DOM\next`), sFix("arch2", 86)},
		expect: func(v vals, e *exp) {
			e.labelled("name", "Output", "Process Name", v.s("name"))
			e.labelled("pid", "Output", "Process ID", v.dec("pid"))
			e.labelled("ppid", "Output", "Parent PID", v.dec("ppid"))
			e.labelled("user", "Output", "Process User", v.s("user"))
			e.labelled("arch", "Output", "Process Arch", "x"+v.dec("arch"))
			e.labelled("next-entry", "Output", "Process Name", "zz-next.exe")
			e.labelled("next-entry", "Output", "Process ID", "4321")
			e.labelled("next-entry", "Output", "Parent PID", "8765")
			e.labelled("next-entry", "Output", "Process User", `DOM\next`)
		}})
	procEntry := []slot{sWStr("name", "svchost.exe"), sI32("pid", 800), sFlag("iswow", 0), sI32("ppid", 600), sI32("session", 3), sI32("threads", 12), sWStrZ("user", `NT AUTHORITY\SYSTEM`),
		sFixWStr("name2", "zz-next.exe"), sFix("pid2", 4321), sFix("iswow2", 1), sFix("ppid2", 8765), sFix("session2", 9), sFix("threads2", 77), sFixWStrZ("user2", `DOM\next`)}
	archOf := func(w bool) string {
		if w {
			return "x86"
		}
		return "x64"
	}
	add(&kind{name: "PROC_LIST/console", cmd: agent.COMMAND_PROC_LIST, slots: append([]slot{sFix("ui", 0)}, procEntry...),
		expect: func(v vals, e *exp) {
			cells := []string{v.s("name"), v.dec("pid"), v.dec("ppid"), v.dec("session"), archOf(v.on("iswow")), v.dec("threads"), v.s("user")}
			for i, n := range []string{"name", "pid", "ppid", "session", "iswow", "threads", "user"} {
				_ = i
				e.row(n, "Output", cells...)
			}
			e.row("next-entry", "Output", "zz-next.exe", "4321", "8765", "9", "x86", "77", `DOM\next`)
		}})
	add(&kind{name: "PROC_LIST/ui", cmd: agent.COMMAND_PROC_LIST, slots: append([]slot{sFix("ui", 1)}, procEntry...),
		expect: func(v vals, e *exp) {
			type prow struct {
				Name, PID, PPID, Session, Threads, User string
				IsWow                                   int
			}
			decode := func(o *obs) ([]prow, bool) {
				for _, m := range o.msgs {
					if m["MiscType"] != "ProcessUI" {
						continue
					}
					raw, err := base64.StdEncoding.DecodeString(m["MiscData"])
					if err != nil {
						return nil, false
					}
					var l []prow
					if json.Unmarshal(raw, &l) != nil {
						return nil, false
					}
					return l, true
				}
				return nil, false
			}
			field := func(slotName, want string, get func(p prow) string) {
				e.add(slotName, fmt.Sprintf("process list entry 0: %s == %q", slotName, short(want)), func(o *obs) (bool, string) {
					l, ok := decode(o)
					if !ok || len(l) < 1 {
						return false, fmt.Sprintf("process list data: ok=%v entries=%d", ok, len(l))
					}
					return get(l[0]) == want, fmt.Sprintf("%q", short(get(l[0])))
				})
			}
			field("name", v.s("name"), func(p prow) string { return p.Name })
			field("pid", v.dec("pid"), func(p prow) string { return p.PID })
			field("ppid", v.dec("ppid"), func(p prow) string { return p.PPID })
			field("session", v.dec("session"), func(p prow) string { return p.Session })
			field("threads", v.dec("threads"), func(p prow) string { return p.Threads })
			field("user", v.s("user"), func(p prow) string { return p.User })
			field("iswow", v.dec("iswow"), func(p prow) string { return strconv.Itoa(p.IsWow) })
			e.add("next-entry", "process list entry 1 is the following entry", func(o *obs) (bool, string) {
				l, ok := decode(o)
				if !ok || len(l) != 2 {
					return false, fmt.Sprintf("entries=%d", len(l))
				}
				p := l[1]
				return p.Name == "zz-next.exe" && p.PID == "4321" && p.PPID == "8765" && p.Session == "9" && p.Threads == "77" && p.User == `DOM\next` && p.IsWow == 1, fmt.Sprintf("%+v", p)
			})
		}})
	add(&kind{name: "PROC/MODULES", cmd: agent.COMMAND_PROC,
		slots: []slot{sFix("sub", agent.DEMON_COMMAND_PROC_MODULES), sI32("pid", 800), sFixStr("module", "ntdll.dll"), sU64("base", 0x7ffb00000000), sFixStr("module2", "zz-next.dll"), sFixU64("base2", 0x7ffc12340000)},
		expect: func(v vals, e *exp) {
			e.contains("pid", "Message", "process "+v.dec("pid")+":")
			e.row("base", "Output", "ntdll.dll", "0x"+v.hex("base"))
			e.row("next-entry", "Output", "zz-next.dll", "0x7ffc12340000")
		}})
	add(&kind{name: "PROC/MEMORY", cmd: agent.COMMAND_PROC,
		slots: []slot{sFix("sub", agent.DEMON_COMMAND_PROC_MEMORY), sFix("pid", 800), sFix("query", 0x40), sU64("base", 0x1f0000), sFix("region", 4096), sFix("protect", 0x40), sFix("state", 0x1000), sFix("type", 0x20000),
			sFixU64("base2", 0x7ffc12340000), sFix("region2", 8192), sFix("protect2", 0x04), sFix("state2", 0x2000), sFix("type2", 0x40000)},
		expect: func(v vals, e *exp) {
			e.row("base", "Output", "0x"+v.hex("base"), strconv.Itoa(0x20000), strconv.Itoa(0x1000))
			e.row("next-entry", "Output", "0x7ffc12340000", strconv.Itoa(0x40000), strconv.Itoa(0x2000))
		}})
	add(&kind{name: "PROC_PPIDSPOOF", cmd: agent.COMMAND_PROC_PPIDSPOOF, slots: []slot{sI32("ppid", 600)},
		expect: func(v vals, e *exp) { e.ends("ppid", "Message", "spoof: "+v.dec("ppid")) }})

	// --- demon info ----------------------------------------------------------------------------------
	prot := func(n string, def uint32) slot { return sEnum(n, def, 0x04, 0x20, 0x40) }
	add(&kind{name: "DEMON_INFO/MEM_ALLOC", cmd: agent.DEMON_INFO,
		slots: []slot{sFix("info", agent.DEMON_INFO_MEM_ALLOC), sU64("ptr", 0x1f0000), sI32("size", 4096), prot("protect", 0x40)},
		expect: func(v vals, e *exp) {
			e.contains("ptr", "Message", "Pointer:[0x"+v.hex("ptr")+"]")
			e.contains("size", "Message", "Size:["+v.dec("size")+"]")
			p := protName(v.u("protect"))
			e.anyOf("protect", "Message", "["+p[0]+"]", "["+p[1]+"]")
		}})
	add(&kind{name: "DEMON_INFO/MEM_EXEC", cmd: agent.DEMON_INFO,
		slots: []slot{sFix("info", agent.DEMON_INFO_MEM_EXEC), sU64("func", 0x1f0000), sI32("thread", 99)},
		expect: func(v vals, e *exp) {
			e.contains("func", "Message", "Function:[0x"+v.hex("func")+"]")
			e.contains("thread", "Message", "ThreadId:["+v.dec("thread")+"]")
		}})
	add(&kind{name: "DEMON_INFO/MEM_PROTECT", cmd: agent.DEMON_INFO,
		slots: []slot{sFix("info", agent.DEMON_INFO_MEM_PROTECT), sU64("mem", 0x1f0000), sI32("size", 4096), prot("old", 0x04), prot("new", 0x20)},
		expect: func(v vals, e *exp) {
			e.contains("mem", "Message", "Memory:[0x"+v.hex("mem")+"]")
			e.contains("size", "Message", "Size:["+v.dec("size")+"]")
			o, n := protName(v.u("old")), protName(v.u("new"))
			e.anyOf("old", "Message", "["+o[0]+" -> ", "["+o[1]+" -> ")
			e.anyOf("new", "Message", " -> "+n[0]+"]", " -> "+n[1]+"]")
		}})

	// --- errors ------------------------------------------------------------------------------------------
	add(&kind{name: "ERROR/WIN32", cmd: agent.COMMAND_ERROR, slots: []slot{sFix("id", agent.ERROR_WIN32_LASTERROR), sI32("code", 5).nums(0, 1, 2, 0x0102, 1<<31, 1<<32-1)},
		expect: func(v vals, e *exp) {
			e.ends("code", "Message", "["+v.dec("code")+"]")
			if v.u("code") == 5 {
				e.contains("code", "Message", "ERROR_ACCESS_DENIED")
			}
		}})
	add(&kind{name: "PIVOT/SMB_CONNECT/failed", cmd: agent.COMMAND_PIVOT, slots: []slot{sFix("sub", agent.DEMON_PIVOT_SMB_CONNECT), sFix("success", 0), sI32("error", 2)},
		expect: func(v vals, e *exp) { e.ends("error", "Message", "["+v.dec("error")+"]") }})
	add(&kind{name: "PIVOT/SMB_DISCONNECT", cmd: agent.COMMAND_PIVOT, slots: []slot{sFix("sub", agent.DEMON_PIVOT_SMB_DISCONNECT), sFix("success", 1), sI32("agentid", 0xb001)},
		expect: func(v vals, e *exp) { e.ends("agentid", "Message", "disconnected "+v.hex("agentid")) }})
	add(&kind{name: "PIVOT/LIST", cmd: agent.COMMAND_PIVOT,
		slots: []slot{sFix("sub", agent.DEMON_PIVOT_LIST), sI32("demonid", 0xb001), sWStr("pipe", `\\.\pipe\x`), sFix("demonid2", 0xc0c0), sFixWStr("pipe2", `\\.\pipe\zz-next`)},
		expect: func(v vals, e *exp) {
			e.row("demonid", "Output", v.hex("demonid"), v.s("pipe"))
			e.row("pipe", "Output", v.hex("demonid"), v.s("pipe"))
			e.row("next-entry", "Output", "c0c0", `\\.\pipe\zz-next`)
		}})

	// --- check-in ------------------------------------------------------------------------------------------
	add(&kind{name: "CHECKIN", cmd: agent.COMMAND_CHECKIN,
		slots: append([]slot{sRaw("key", seam.Key(cbKey)), sRaw("iv", seam.IV(cbKey))}, metaSlots()...),
		expect: func(v vals, e *exp) {
			str := func(slotName, label string, get func(i *agent.AgentInfo) string, inDB bool) {
				want := v.s(slotName)
				e.labelled(slotName, "Output", label, want)
				e.record(slotName, "Info."+slotName, func(o *obs) (string, string) { return get(o.a.Info), want })
				if inDB {
					e.record(slotName, "TS_Agents."+slotName, func(o *obs) (string, string) { return get(o.db), want })
				}
			}
			str("Hostname", "Host Name", func(i *agent.AgentInfo) string { return i.Hostname }, true)
			str("Username", "User Name", func(i *agent.AgentInfo) string { return i.Username }, true)
			str("Domain", "Domain Name", func(i *agent.AgentInfo) string { return i.DomainName }, true)
			str("InternalIP", "Internal IP", func(i *agent.AgentInfo) string { return i.InternalIP }, true)
			str("ProcessPath", "Process Path", func(i *agent.AgentInfo) string { return i.ProcessPath }, false)
			pn := lastComponent(v.s("ProcessPath"))
			e.labelled("ProcessPath", "Output", "Process Name", pn)
			e.record("ProcessPath", "Info.ProcessName", func(o *obs) (string, string) { return o.a.Info.ProcessName, pn })
			e.record("ProcessPath", "TS_Agents.ProcessName", func(o *obs) (string, string) { return o.db.ProcessName, pn })
			num := func(slotName, label string, get func(i *agent.AgentInfo) int) {
				want := v.dec(slotName)
				if label != "" {
					e.labelled(slotName, "Output", label, want)
				}
				e.record(slotName, "Info."+slotName, func(o *obs) (string, string) { return strconv.Itoa(get(o.a.Info)), want })
				e.record(slotName, "TS_Agents."+slotName, func(o *obs) (string, string) { return strconv.Itoa(get(o.db)), want })
			}
			num("PID", "Process ID", func(i *agent.AgentInfo) int { return i.ProcessPID })
			num("TID", "Thread ID", func(i *agent.AgentInfo) int { return i.ProcessTID })
			num("PPID", "", func(i *agent.AgentInfo) int { return i.ProcessPPID })
			num("Sleep", "Sleep Delay", func(i *agent.AgentInfo) int { return i.SleepDelay })
			num("Jitter", "Sleep Jitter", func(i *agent.AgentInfo) int { return i.SleepJitter })
			el := "false"
			if v.on("Elevated") {
				el = "true"
			}
			e.labelled("Elevated", "Output", "Process Elevated", el)
			e.record("Elevated", "Info.Elevated", func(o *obs) (string, string) { return o.a.Info.Elevated, el })
			e.labelled("BaseAddress", "Output", "Base Address", "0x"+v.hex("BaseAddress"))
			e.record("BaseAddress", "Info.BaseAddress (bits)", func(o *obs) (string, string) {
				return strconv.FormatUint(uint64(o.a.Info.BaseAddress), 16), v.hex("BaseAddress")
			})
			e.record("BaseAddress", "TS_Agents.BaseAddress (bits)", func(o *obs) (string, string) {
				return strconv.FormatUint(uint64(o.db.BaseAddress), 16), v.hex("BaseAddress")
			})
			build := v.dec("OsMajor") + "." + v.dec("OsMinor") + "." + v.dec("OsProduct") + "." + v.dec("OsSP") + "." + v.dec("OsBuild")
			for _, n := range []string{"OsMajor", "OsMinor", "OsProduct", "OsSP", "OsBuild"} {
				e.labelled(n, "Output", "Build", build)
			}
			e.record("KillDate", "Info.KillDate (bits)", func(o *obs) (string, string) {
				return strconv.FormatUint(uint64(o.a.Info.KillDate), 16), v.hex("KillDate")
			})
			e.record("KillDate", "TS_Agents.KillDate (bits)", func(o *obs) (string, string) { return strconv.FormatUint(uint64(o.db.KillDate), 16), v.hex("KillDate") })
			e.record("WorkingHours", "Info.WorkingHours (bits)", func(o *obs) (string, string) {
				return strconv.FormatUint(uint64(uint32(o.a.Info.WorkingHours)), 16), v.hex("WorkingHours")
			})
			e.record("WorkingHours", "TS_Agents.WorkingHours (bits)", func(o *obs) (string, string) {
				return strconv.FormatUint(uint64(uint32(o.db.WorkingHours)), 16), v.hex("WorkingHours")
			})
		}})

	// --- config ------------------------------------------------------------------------------------------------
	cfgNum := func(name string, id uint32, label string) {
		add(&kind{name: name, cmd: agent.COMMAND_CONFIG, slots: []slot{sFix("config", id), sI32("value", 2)},
			expect: func(v vals, e *exp) { e.ends("value", "Message", label+v.dec("value")) }})
	}
	cfgNum("CONFIG/MEMORY_ALLOC", agent.CONFIG_MEMORY_ALLOC, " set to ")
	cfgNum("CONFIG/MEMORY_EXECUTE", agent.CONFIG_MEMORY_EXECUTE, " set to ")
	cfgNum("CONFIG/SLEEP_TECHNIQUE", agent.CONFIG_IMPLANT_SLEEP_TECHNIQUE, " set to ")
	cfgNum("CONFIG/INJECT_TECHNIQUE", agent.CONFIG_INJECT_TECHNIQUE, " to ")
	cfgFlag := func(name string, id uint32) {
		add(&kind{name: name, cmd: agent.COMMAND_CONFIG, slots: []slot{sFix("config", id), sFlag("value", 1)},
			expect: func(v vals, e *exp) {
				if v.on("value") {
					e.ends("value", "Message", "true")
				} else {
					e.ends("value", "Message", "false")
				}
			}})
	}
	cfgFlag("CONFIG/COFFEE_VEH", agent.CONFIG_IMPLANT_COFFEE_VEH)
	cfgFlag("CONFIG/COFFEE_THREADED", agent.CONFIG_IMPLANT_COFFEE_THREADED)
	cfgFlag("CONFIG/VERBOSE", agent.CONFIG_IMPLANT_VERBOSE)
	for _, sp := range []struct {
		n  string
		id uint32
	}{{"CONFIG/INJECT_SPAWN64", agent.CONFIG_INJECT_SPAWN64}, {"CONFIG/INJECT_SPAWN32", agent.CONFIG_INJECT_SPAWN32}} {
		add(&kind{name: sp.n, cmd: agent.COMMAND_CONFIG, slots: []slot{sFix("config", sp.id), sWStr("path", `C:\Windows\System32\notepad.exe`)},
			expect: func(v vals, e *exp) { e.ends("path", "Message", " set to "+v.s("path")) }})
	}
	for _, sp := range []struct {
		n  string
		id uint32
	}{{"CONFIG/SPFTHREADSTART", agent.CONFIG_IMPLANT_SPFTHREADSTART}, {"CONFIG/INJECT_SPOOFADDR", agent.CONFIG_INJECT_SPOOFADDR}} {
		add(&kind{name: sp.n, cmd: agent.COMMAND_CONFIG, slots: []slot{sFix("config", sp.id), sStr("lib", "ntdll.dll"), sStr("func", "RtlUserThreadStart")},
			expect: func(v vals, e *exp) {
				e.contains("lib", "Message", " to "+v.s("lib")+"!")
				e.ends("func", "Message", "!"+v.s("func"))
			}})
	}
	add(&kind{name: "CONFIG/KILLDATE", cmd: agent.COMMAND_CONFIG, slots: []slot{sFix("config", agent.CONFIG_KILLDATE), sU64("killdate", 1893456000)},
		expect: func(v vals, e *exp) {
			// the message only says "set"/"disabled" (a deliberate summary): the record is judged
			e.record("killdate", "Info.KillDate (bits)", func(o *obs) (string, string) {
				return strconv.FormatUint(uint64(o.a.Info.KillDate), 16), v.hex("killdate")
			})
			e.record("killdate", "TS_Agents.KillDate (bits)", func(o *obs) (string, string) { return strconv.FormatUint(uint64(o.db.KillDate), 16), v.hex("killdate") })
			if v.u("killdate") == 0 {
				e.contains("killdate", "Message", "disabled")
			} else {
				e.contains("killdate", "Message", "set")
			}
		}})
	add(&kind{name: "CONFIG/WORKINGHOURS", cmd: agent.COMMAND_CONFIG, slots: []slot{sFix("config", agent.CONFIG_WORKINGHOURS), sI32("hours", 0x0050a8f1)},
		expect: func(v vals, e *exp) {
			e.record("hours", "Info.WorkingHours (bits)", func(o *obs) (string, string) {
				return strconv.FormatUint(uint64(uint32(o.a.Info.WorkingHours)), 16), v.hex("hours")
			})
			e.record("hours", "TS_Agents.WorkingHours (bits)", func(o *obs) (string, string) {
				return strconv.FormatUint(uint64(uint32(o.db.WorkingHours)), 16), v.hex("hours")
			})
			if v.u("hours") == 0 {
				e.contains("hours", "Message", "disabled")
			} else {
				e.contains("hours", "Message", "set")
			}
		}})

	// --- tokens ---------------------------------------------------------------------------------------------------
	add(&kind{name: "TOKEN/GET_UID", cmd: agent.COMMAND_TOKEN, slots: []slot{sFix("sub", agent.DEMON_COMMAND_TOKEN_GET_UID), sFlag("elevated", 1), sWStrZ("user", `DOM\admin`)},
		expect: func(v vals, e *exp) {
			if v.on("elevated") {
				e.ends("user", "Message", "User: "+v.s("user")+" (Admin)")
				e.ends("elevated", "Message", " (Admin)")
			} else {
				e.ends("user", "Message", "User: "+v.s("user"))
				if !strings.HasSuffix(v.s("user"), "(Admin)") {
					e.lacks("elevated", "Message", "(Admin)")
				}
			}
		}})
	add(&kind{name: "TOKEN/STEAL", cmd: agent.COMMAND_TOKEN, slots: []slot{sFix("sub", agent.DEMON_COMMAND_TOKEN_STEAL), sWStrZ("user", `DOM\admin`), sI32("tokenid", 3), sI32("pid", 800)},
		expect: func(v vals, e *exp) {
			e.contains("pid", "Message", "from "+v.dec("pid")+" ")
			e.contains("user", "Message", "User:["+v.s("user")+"]")
			e.contains("tokenid", "Message", "TokenID:["+v.dec("tokenid")+"]")
		}})
	add(&kind{name: "TOKEN/IMPERSONATE", cmd: agent.COMMAND_TOKEN, slots: []slot{sFix("sub", agent.DEMON_COMMAND_TOKEN_IMPERSONATE), sFix("success", 1), sStr("user", `DOM\admin`)},
		expect: func(v vals, e *exp) { e.ends("user", "Message", "impersonated "+v.s("user")) }})
	add(&kind{name: "TOKEN/MAKE", cmd: agent.COMMAND_TOKEN, slots: []slot{sFix("sub", agent.DEMON_COMMAND_TOKEN_MAKE), sWStr("user", `DOM\svc`)},
		expect: func(v vals, e *exp) { e.ends("user", "Message", "token: "+v.s("user")) }})
	add(&kind{name: "TOKEN/REMOVE", cmd: agent.COMMAND_TOKEN, slots: []slot{sFix("sub", agent.DEMON_COMMAND_TOKEN_REMOVE), sFlag("success", 1), sI32("tokenid", 3)},
		expect: func(v vals, e *exp) { e.contains("tokenid", "Message", "token ["+v.dec("tokenid")+"]") }})
	add(&kind{name: "TOKEN/PRIVS/get", cmd: agent.COMMAND_TOKEN,
		slots:  []slot{sFix("sub", agent.DEMON_COMMAND_TOKEN_PRIVSGET_OR_LIST), sFix("list", 0), sFix("success", 1), sStr("priv", "SeDebugPrivilege")},
		expect: func(v vals, e *exp) { e.contains("priv", "Message", "privilege "+v.s("priv")+" was") }})
	add(&kind{name: "TOKEN/LIST", cmd: agent.COMMAND_TOKEN,
		slots: []slot{sFix("sub", agent.DEMON_COMMAND_TOKEN_LIST), sI32("index", 5), sI32("handle", 0x2a4), sWStr("user", `DOM\admin`), sI32("pid", 800), sFix("type", 1), sFlag("impersonating", 1),
			sFix("index2", 6), sFix("handle2", 0x3b8), sFixWStr("user2", `DOM\zz-next`), sFix("pid2", 4321), sFix("type2", 2), sFix("impersonating2", 0)},
		expect: func(v vals, e *exp) {
			yn := "No"
			if v.on("impersonating") {
				yn = "Yes"
			}
			for _, n := range []string{"index", "handle", "user", "pid"} {
				e.row(n, "Output", v.dec("index"), "0x"+v.hex("handle"), v.s("user"), v.dec("pid"))
			}
			e.row("impersonating", "Output", v.dec("index"), "0x"+v.hex("handle"), v.s("user"), v.dec("pid"), yn)
			e.row("next-entry", "Output", "6", "0x3b8", `DOM\zz-next`, "4321", "No")
		}})
	add(&kind{name: "TOKEN/FIND_TOKENS", cmd: agent.COMMAND_TOKEN,
		slots: []slot{sFix("sub", agent.DEMON_COMMAND_TOKEN_FIND_TOKENS), sFix("success", 1), sFix("count", 2),
			sWStr("user", `DOM\admin`), sI32("pid", 800), sI32("handle", 0x2a4), sFix("integrity", 0x3000), sFix("implevel", 2), sFix("type", 2),
			sFixWStr("user2", `DOM\zz-next`), sFix("pid2", 4321), sFix("handle2", 0x3b8), sFix("integrity2", 0x2000), sFix("implevel2", 3), sFix("type2", 1)},
		expect: func(v vals, e *exp) {
			h := v.hex("handle")
			if v.u("handle") == 0 {
				h = "" // a zero handle is deliberately shown as blank
			}
			for _, n := range []string{"user", "pid", "handle"} {
				e.row(n, "Output", v.s("user"), v.dec("pid"), h)
			}
			e.row("next-entry", "Output", `DOM\zz-next`, "4321", "3b8")
		}})

	// --- net ------------------------------------------------------------------------------------------------------------
	add(&kind{name: "NET/DOMAIN", cmd: agent.COMMAND_NET, slots: []slot{sFix("sub", agent.DEMON_NET_COMMAND_DOMAIN), sStr("domain", "corp.local")},
		expect: func(v vals, e *exp) {
			if v.s("domain") == "" {
				e.contains("domain", "Message", "not") // "does not seem to be joined": the deliberate reading of an empty name
				return
			}
			e.ends("domain", "Message", "Host: "+v.s("domain"))
		}})
	add(&kind{name: "NET/LOGONS", cmd: agent.COMMAND_NET, slots: []slot{sFix("sub", agent.DEMON_NET_COMMAND_LOGONS), sWStr("server", `\\DC01`), sWStr("user", "alice"), sFixWStr("user2", "zz-next")},
		expect: func(v vals, e *exp) {
			e.contains("server", "Message", " at "+v.s("server")+" [2]")
			e.row("user", "Output", v.s("user"))
			e.row("next-entry", "Output", "zz-next")
		}})
	add(&kind{name: "NET/USERS", cmd: agent.COMMAND_NET,
		slots: []slot{sFix("sub", agent.DEMON_NET_COMMAND_USERS), sWStr("server", `\\DC01`), sWStr("user", "alice"), sFlag("admin", 1), sFixWStr("user2", "zz-next"), sFix("admin2", 0)},
		expect: func(v vals, e *exp) {
			e.contains("server", "Message", " on "+v.s("server")+":")
			if v.on("admin") {
				e.contains("user", "Output", " - "+v.s("user")+" (Admin)\n")
				e.contains("admin", "Output", " - "+v.s("user")+" (Admin)\n")
			} else {
				e.contains("user", "Output", " - "+v.s("user")+" \n")
				e.lacks("admin", "Output", "(Admin)")
			}
			e.contains("next-entry", "Output", " - zz-next \n")
		}})
	for _, g := range []struct {
		n   string
		sub uint32
		msg string
	}{{"NET/LOCALGROUP", agent.DEMON_NET_COMMAND_LOCALGROUP, " for "}, {"NET/GROUP", agent.DEMON_NET_COMMAND_GROUP, " on "}} {
		g := g // go.mod says go 1.21: the loop variable is shared
		add(&kind{name: g.n, cmd: agent.COMMAND_NET,
			slots: []slot{sFix("sub", g.sub), sWStr("server", `\\DC01`), sWStr("group", "Administrators"), sWStr("desc", "full access"), sFixWStr("group2", "zz-next"), sFixWStr("desc2", "the following group")},
			expect: func(v vals, e *exp) {
				e.contains("server", "Message", g.msg+v.s("server")+":")
				e.row("group", "Output", v.s("group"), v.s("desc"))
				e.row("desc", "Output", v.s("group"), v.s("desc"))
				e.row("next-entry", "Output", "zz-next", "the following group")
			}})
	}

	// the two net listings rendered through tablewriter (it wraps and pads cell text): only the numbers are judged
	add(&kind{name: "NET/SESSIONS", cmd: agent.COMMAND_NET,
		slots: []slot{sFix("sub", agent.DEMON_NET_COMMAND_SESSIONS), sFixWStr("server", `\\DC01`), sFixWStr("client", `\\10.0.0.9`), sFixWStr("user", "alice"), sI32("time", 60), sI32("idle", 5),
			sFixWStr("client2", `\\10.0.0.77`), sFixWStr("user2", "zz-next"), sFix("time2", 4321), sFix("idle2", 8765)},
		expect: func(v vals, e *exp) {
			e.row("time", "Output", `\\10.0.0.9`, "alice", v.dec("time"), v.dec("idle"))
			e.row("idle", "Output", `\\10.0.0.9`, "alice", v.dec("time"), v.dec("idle"))
			e.row("next-entry", "Output", `\\10.0.0.77`, "zz-next", "4321", "8765")
		}})
	add(&kind{name: "NET/SHARE", cmd: agent.COMMAND_NET,
		slots: []slot{sFix("sub", agent.DEMON_NET_COMMAND_SHARE), sFixWStr("server", `\\DC01`), sFixWStr("name", "C$"), sFixWStr("path", `C:\`), sFixWStr("remark", "Default"), sI32("access", 7),
			sFixWStr("name2", "zz-next"), sFixWStr("path2", `D:\n`), sFixWStr("remark2", "following"), sFix("access2", 4321)},
		expect: func(v vals, e *exp) {
			e.row("access", "Output", "C$", `C:\`, "Default", v.dec("access"))
			e.row("next-entry", "Output", "zz-next", `D:\n`, "following", "4321")
		}})

	// --- jobs -------------------------------------------------------------------------------------------------------------
	add(&kind{name: "JOB/LIST", cmd: agent.COMMAND_JOB,
		slots: []slot{sFix("sub", agent.DEMON_COMMAND_JOB_LIST), sI32("jobid", 5), sEnum("type", 2, 1, 2), sEnum("state", 1, 1, 2, 3), sFix("jobid2", 4321), sFix("type2", 1), sFix("state2", 3)},
		expect: func(v vals, e *exp) {
			ty := map[uint64]string{1: "Thread", 2: "Process"}[v.u("type")]
			st := map[uint64]string{1: "Running", 2: "Suspended", 3: "Dead"}[v.u("state")]
			for _, n := range []string{"jobid", "type", "state"} {
				e.row(n, "Output", v.dec("jobid"), ty, st)
			}
			e.row("next-entry", "Output", "4321", "Thread", "Dead")
		}})
	for _, j := range []struct {
		n   string
		sub uint32
	}{{"JOB/SUSPEND", agent.DEMON_COMMAND_JOB_SUSPEND}, {"JOB/RESUME", agent.DEMON_COMMAND_JOB_RESUME}, {"JOB/KILL_REMOVE", agent.DEMON_COMMAND_JOB_KILL_REMOVE}} {
		add(&kind{name: j.n, cmd: agent.COMMAND_JOB, slots: []slot{sFix("sub", j.sub), sI32("jobid", 5), sFlag("success", 1)},
			expect: func(v vals, e *exp) { e.ends("jobid", "Message", "job "+v.dec("jobid")) }})
	}

	// --- sockets ------------------------------------------------------------------------------------------------------------
	addr := func(n string, def uint32) slot {
		return sI32(n, def).nums(0, 1, 0x0100007f, 0x0502000a, 1<<31, 1<<32-1)
	}
	add(&kind{name: "SOCKET/RPORTFWD_ADD", cmd: agent.COMMAND_SOCKET,
		slots: []slot{sFix("sub", agent.SOCKET_COMMAND_RPORTFWD_ADD), sFlag("success", 1), sI32("id", 0x71), addr("lcladdr", 0x0100007f), sI32("lclport", 4444), addr("fwdaddr", 0x0502000a), sI32("fwdport", 8080)},
		expect: func(v vals, e *exp) {
			l := ipString(v.u("lcladdr")) + ":" + v.dec("lclport")
			f := ipString(v.u("fwdaddr")) + ":" + v.dec("fwdport")
			e.contains("lcladdr", "Message", " on "+l+" to ")
			e.contains("lclport", "Message", " on "+l+" to ")
			e.contains("fwdaddr", "Message", " to "+f)
			e.contains("fwdport", "Message", " to "+f)
			if v.on("success") {
				e.ends("id", "Message", "[Id: "+v.hex("id")+"]")
			}
		}})
	add(&kind{name: "SOCKET/RPORTFWD_LIST", cmd: agent.COMMAND_SOCKET,
		slots: []slot{sFix("sub", agent.SOCKET_COMMAND_RPORTFWD_LIST), sI32("id", 0x51), addr("lcladdr", 0x0100007f), sI32("lclport", 4444), addr("fwdaddr", 0x0502000a), sI32("fwdport", 8080),
			sFix("id2", 0xc0c0), sFix("lcladdr2", 0x04030201), sFix("lclport2", 1111), sFix("fwdaddr2", 0x08070605), sFix("fwdport2", 2222)},
		expect: func(v vals, e *exp) {
			l := ipString(v.u("lcladdr")) + ":" + v.dec("lclport")
			f := ipString(v.u("fwdaddr")) + ":" + v.dec("fwdport")
			for _, n := range []string{"id", "lcladdr", "lclport", "fwdaddr", "fwdport"} {
				e.row(n, "Output", v.hex("id"), l, "->", f)
			}
			e.row("next-entry", "Output", "c0c0", "1.2.3.4:1111", "->", "5.6.7.8:2222")
		}})
	add(&kind{name: "SOCKET/RPORTFWD_REMOVE", cmd: agent.COMMAND_SOCKET,
		slots: []slot{sFix("sub", agent.SOCKET_COMMAND_RPORTFWD_REMOVE), sI32("id", 0x51), sFix("type", agent.SOCKET_TYPE_REVERSE_PORTFWD), addr("lcladdr", 0x0100007f), sI32("lclport", 4444), addr("fwdaddr", 0x0502000a), sI32("fwdport", 8080)},
		expect: func(v vals, e *exp) {
			l := ipString(v.u("lcladdr")) + ":" + v.dec("lclport")
			f := ipString(v.u("fwdaddr")) + ":" + v.dec("fwdport")
			e.contains("id", "Message", "[SocketID: "+v.hex("id")+"]")
			for _, n := range []string{"lcladdr", "lclport", "fwdaddr", "fwdport"} {
				e.contains(n, "Message", "[Forward: "+l+" -> "+f+"]")
			}
		}})

	// --- kerberos -----------------------------------------------------------------------------------------------------------
	add(&kind{name: "KERBEROS/LUID", cmd: agent.COMMAND_KERBEROS, slots: []slot{sFix("sub", agent.KERBEROS_COMMAND_LUID), sFix("success", 1), sI32("high", 0x12), sI32("low", 0x3e7)},
		expect: func(v vals, e *exp) {
			e.contains("high", "Message", "LogonId: "+v.hex("high")+":")
			e.ends("low", "Message", ":0x"+v.hex("low"))
		}})
	add(&kind{name: "KERBEROS/KLIST", cmd: agent.COMMAND_KERBEROS,
		slots: []slot{sFix("sub", agent.KERBEROS_COMMAND_KLIST), sFix("success", 1), sFix("sessions", 1),
			sWStr("user", "alice"), sWStr("domain", "DOM"), sI32("idlow", 0x3e7), sI32("idhigh", 0x12), sI32("session", 1), sWStr("sid", "S-1-5-21-1-2-3-1104"),
			sFix("timelow", 0xd53e8000), sFix("timehigh", 0x01db1ded), sFix("logontype", 2), sWStr("package", "Kerberos"), sWStr("server", "DC01"), sWStr("dnsdomain", "CORP.LOCAL"), sWStr("upn", "alice@corp.local"),
			sFix("tickets", 1),
			sWStr("client", "alice"), sWStr("crealm", "CORP.LOCAL"), sWStr("sname", "krbtgt/CORP.LOCAL"), sWStr("srealm", "CORP2.LOCAL"),
			sFix("startlow", 0xd53e8000), sFix("starthigh", 0x01db1ded), sFix("endlow", 0xd53e8000), sFix("endhigh", 0x01db1dee), sFix("renewlow", 0xd53e8000), sFix("renewhigh", 0x01db1def),
			sFix("enctype", 18), sI32("flags", 0x40e10000), sFixStr("ticket", "\x61\x82\x01\x02\x03")},
		expect: func(v vals, e *exp) {
			e.labelled("user", "Output", "UserName", v.s("user"))
			e.labelled("domain", "Output", "Domain", v.s("domain"))
			e.labelled("idlow", "Output", "LogonId", v.hex("idhigh")+":0x"+v.hex("idlow"))
			e.labelled("idhigh", "Output", "LogonId", v.hex("idhigh")+":0x"+v.hex("idlow"))
			e.labelled("session", "Output", "Session", v.dec("session"))
			e.labelled("sid", "Output", "UserSID", v.s("sid"))
			e.labelled("package", "Output", "Authentication package", v.s("package"))
			e.labelled("server", "Output", "LogonServer", v.s("server"))
			e.labelled("dnsdomain", "Output", "LogonServerDNSDomain", v.s("dnsdomain"))
			e.labelled("upn", "Output", "UserPrincipalName", v.s("upn"))
			e.labelled("client", "Output", "Client name", v.s("client")+" @ "+v.s("crealm"))
			e.labelled("crealm", "Output", "Client name", v.s("client")+" @ "+v.s("crealm"))
			e.labelled("sname", "Output", "Server name", v.s("sname")+" @ "+v.s("srealm"))
			e.labelled("srealm", "Output", "Server name", v.s("sname")+" @ "+v.s("srealm"))
			e.contains("flags", "Output", "(0x"+v.hex("flags")+")")
			e.labelled("ticket", "Output", "Ticket", base64.StdEncoding.EncodeToString([]byte("\x61\x82\x01\x02\x03")))
		}})

	// --- assemblies ---------------------------------------------------------------------------------------------------------
	add(&kind{name: "ASSEMBLY/NET_VERSION", cmd: agent.COMMAND_ASSEMBLY_INLINE_EXECUTE, slots: []slot{sFix("info", agent.DOTNET_INFO_NET_VERSION), sWStr("version", "v4.0.30319")},
		expect: func(v vals, e *exp) { e.ends("version", "Message", "Version: "+v.s("version")) }})
	add(&kind{name: "ASSEMBLY/ENTRYPOINT", cmd: agent.COMMAND_ASSEMBLY_INLINE_EXECUTE, slots: []slot{sFix("info", agent.DOTNET_INFO_ENTRYPOINT), sI32("thread", 321)},
		expect: func(v vals, e *exp) { e.contains("thread", "Message", "[Thread: "+v.dec("thread")+"]") }})
	add(&kind{name: "ASSEMBLY_LIST_VERSIONS", cmd: agent.COMMAND_ASSEMBLY_LIST_VERSIONS, slots: []slot{sWStr("version", "v2.0.50727"), sFixWStr("version2", "zz-next")},
		expect: func(v vals, e *exp) {
			e.contains("version", "Output", " - "+v.s("version")+"\n")
			e.contains("next-entry", "Output", " - zz-next\n")
		}})

	return t
}
