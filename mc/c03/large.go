package c03

import (
	"crypto/sha256"
	"fmt"
	"strings"

	"Havoc/pkg/agent"

	"verifmc/demonwire"
	"verifmc/ev"
	"verifmc/seam"
)

// runLarge: "strings of any length".  A Demon puts whatever output has queued up into one
// request (Package.c checks its 3 MiB mark only after a package has been appended, and one
// package may be larger than that by itself), so requests of several MiB are ordinary.
// Every output of such a request reaches the console whole: one console message per
// package, each the text that was sent.
func runLarge(r *ev.Run) {
	type pkg struct {
		n    int
		fill byte
	}
	cases := [][]pkg{
		{{4 << 20, 'a'}},                            // one package beyond the Demon's 3 MiB mark
		{{5 << 19, 'b'}, {1 << 20, 'c'}},            // 2.5 MiB + 1 MiB: the mark is passed with the second package
		{{1 << 20, 'd'}, {1 << 20, 'e'}, {64, 'f'}}, // below the mark
		{{3<<20 - 64, 'g'}, {200, 'h'}},             // the second package straddles the mark
	}
	if r.Thorough() {
		cases = append(cases, []pkg{{16 << 20, 'i'}}, []pkg{{3 << 20, 'j'}, {3 << 20, 'k'}, {3 << 20, 'l'}})
	}
	r.Bounds["large_requests"] = len(cases)
	for ci, c := range cases {
		r.Eval(1)
		ts := seam.New(seam.Options{})
		a := ts.MustRegister(cbAgent, cbKey)
		var subs []demonwire.Sub
		var want []string
		var sizes []int
		for i, p := range c {
			req := uint32(0x6100 + i)
			a.AddRequest(agent.Job{RequestID: req, Command: agent.COMMAND_OUTPUT})
			text := strings.Repeat(string(p.fill), p.n-1) + "."
			want = append(want, text)
			sizes = append(sizes, p.n)
			subs = append(subs, demonwire.Sub{Cmd: agent.COMMAND_OUTPUT, ReqID: req, Body: encode([]slot{sStr("text", "")}, vals{"text": val{s: text}})})
		}
		ts.T.EventsMtx.Lock()
		from := len(ts.T.EventsList)
		ts.T.EventsMtx.Unlock()
		res, _, _ := ts.CheckIn(cbAgent, cbKey, subs...)
		detail := map[string]any{"case": ci, "package_sizes": sizes, "status": res.Status}
		switch {
		case res.Panic != nil:
			r.Violate("large/panic/"+res.Stack, fmt.Sprint(res.Panic), detail)
		case res.Status != 200:
			r.Violate("large/rejected", fmt.Sprintf("a request of %v bytes of output was answered %d", sizes, res.Status), detail)
		default:
			var got []string
			for _, m := range consoleEvents(ts, from) {
				if o, ok := m["Output"]; ok && o != "" {
					got = append(got, o)
				}
			}
			bad := len(got) != len(want)
			for i := 0; !bad && i < len(want); i++ {
				bad = sha256.Sum256([]byte(got[i])) != sha256.Sum256([]byte(want[i]))
			}
			if bad {
				var gl []int
				for _, g := range got {
					gl = append(gl, len(g))
				}
				detail["console_output_lengths"] = gl
				r.Violate("large/output-lost-or-cut", fmt.Sprintf("the agent reported %d outputs of %v bytes in one request (answered 200), the console shows %d of %v bytes", len(want), sizes, len(got), gl), detail)
			} else {
				r.Outcome(fmt.Sprintf("large/ok/%d-packages", len(c)))
			}
		}
		ts.Close()
	}
}
