package c03

import (
	"bytes"
	"fmt"
	"strings"
	"unicode/utf16"

	"Havoc/pkg/common/parser"

	"verifmc/demonwire"
	"verifmc/ev"
)

// Part 1: reader × value × residue.  For every reader, every value of its domain and
// every number 0..17 of trailing bytes (and three residue fillings), the value read
// equals the value demonwire wrote and the cursor advanced by exactly the field size.
// CanIRead for every type list of length <= 3 × every truncation.

var int32Dom = []uint32{0, 1, 0x0102, 0x01020304, 0x7fffffff, 0x80000000, 0xfffffffe, 0xffffffff, 0x00ff00ff, 0xff000000}
var int64Dom = []uint64{0, 1, 0x0102030405060708, 0x7fffffffffffffff, 0x8000000000000000, 0xffffffffffffffff, 0x00000000ffffffff, 0xffffffff00000000}

func residues(n int) [][]byte {
	if n == 0 {
		return [][]byte{{}}
	}
	a := make([]byte, n)
	b := bytes.Repeat([]byte{0xff}, n)
	c := make([]byte, n)
	for i := range c {
		c[i] = byte(0xA1 + i)
	}
	return [][]byte{a, b, c}
}

func byteStrings() [][]byte {
	var out [][]byte
	alpha := []byte{0x00, 0x41, 0xff}
	for n := 0; n <= 9; n++ {
		if n == 0 {
			out = append(out, []byte{})
			continue
		}
		// every string for n<=3, then patterns
		if n <= 3 {
			total := 1
			for i := 0; i < n; i++ {
				total *= 3
			}
			for k := 0; k < total; k++ {
				s := make([]byte, n)
				x := k
				for i := range s {
					s[i] = alpha[x%3]
					x /= 3
				}
				out = append(out, s)
			}
		} else {
			for _, a := range alpha {
				out = append(out, bytes.Repeat([]byte{a}, n))
			}
			s := make([]byte, n)
			for i := range s {
				s[i] = alpha[i%3]
			}
			out = append(out, s)
		}
	}
	return out
}

type wcase struct {
	name  string
	units []uint16
}

func wstrings() []wcase {
	return []wcase{
		{"empty", nil},
		{"a", []uint16{'a'}},
		{"ab", []uint16{'a', 'b'}},
		{"e-acute", []uint16{0xe9}},
		{"cjk", []uint16{0x4e2d, 0x6587}},
		{"surrogate-pair", []uint16{0xd83d, 0xde00}},
		{"a+pair+b", []uint16{'a', 0xd83d, 0xde00, 'b'}},
		{"path", utf16.Encode([]rune(`C:\Users\x y\é.txt`))},
		{"with-terminator", []uint16{'a', 'b', 0}},
		// text with a null code unit inside (two lines of OEM output, a multi-string): "any
		// content" - only terminators at the ends are not part of the text
		{"embedded-null", []uint16{'a', 0, 'b'}},
		{"embedded-null+terminator", []uint16{'a', 'b', 0, 'c', 'd', 0}},
		{"embedded-null-pair", []uint16{'a', 0, 0, 'b', 0xd83d, 0xde00}},
		{"long", utf16.Encode([]rune(string(bytes.Repeat([]byte{'A'}, 300))))},
	}
}

// expected decoding of well-formed UTF-16 (lone surrogates excluded from the domain:
// the statement is about what the Demon sends, which is valid UTF-16 text)
func wantString(units []uint16) string {
	s := string(utf16.Decode(units))
	// terminators (null code units at the ends) are not part of the text; everything
	// between them is
	return strings.Trim(s, "\x00")
}

func stripNul(s string) string {
	out := make([]rune, 0, len(s))
	for _, r := range s {
		if r != 0 {
			out = append(out, r)
		}
	}
	return string(out)
}

type rcase struct {
	R       string `json:"reader"`
	V       string `json:"value"`
	Residue int    `json:"trailing_bytes"`
	Fill    string `json:"fill,omitempty"`
	Got     string `json:"got,omitempty"`
	Want    string `json:"want,omitempty"`
}

func guard(f func()) (p any) {
	defer func() { p = recover() }()
	f()
	return nil
}

func runReaders(r *ev.Run) {
	maxRes := 17
	// integers
	for _, be := range []bool{true, false} {
		for _, v := range int32Dom {
			for res := 0; res <= maxRes; res++ {
				for fi, fill := range residues(res) {
					buf := enc32(v, be)
					buf = append(buf, fill...)
					p := parser.NewParser(buf)
					p.SetBigEndian(be)
					var got int
					pn := guard(func() { got = p.ParseInt32() })
					r.Eval(1)
					c := rcase{R: fmt.Sprintf("ParseInt32/be=%v", be), V: fmt.Sprintf("%#x", v), Residue: res, Fill: fmt.Sprint(fi)}
					if pn != nil {
						r.Violate("reader/ParseInt32/panic", fmt.Sprint(pn), c)
						continue
					}
					if uint32(got) != v || got < 0 {
						c.Got, c.Want = fmt.Sprintf("%#x", got), fmt.Sprintf("%#x", v)
						r.Violate(fmt.Sprintf("reader/int32-value/residue=%s", resClass(res, 4)), "ParseInt32 returns a wrong value when followed by trailing bytes", c)
					} else if p.Length() != res || !bytes.Equal(p.Buffer(), fill) {
						r.Violate("reader/int32-cursor", "cursor did not advance by 4", c)
					}
					r.Outcome(fmt.Sprintf("i32 ok res%%4=%d", res%4))
					if r.WantSample() && res == 2 {
						r.Sample(c)
					}

					// bool
					p = parser.NewParser(append(enc32(v, be), fill...))
					p.SetBigEndian(be)
					var gb bool
					pn = guard(func() { gb = p.ParseBool() })
					r.Eval(1)
					c.R = fmt.Sprintf("ParseBool/be=%v", be)
					if pn != nil {
						r.Violate("reader/ParseBool/panic", fmt.Sprint(pn), c)
					} else if gb != (v != 0) {
						c.Got, c.Want = fmt.Sprint(gb), fmt.Sprint(v != 0)
						r.Violate(fmt.Sprintf("reader/bool-value/residue=%s", resClass(res, 4)), "ParseBool returns a wrong value when followed by trailing bytes", c)
					} else if p.Length() != res {
						r.Violate("reader/bool-cursor", "cursor did not advance by 4", c)
					}
				}
			}
		}
		for _, v := range int64Dom {
			for res := 0; res <= maxRes; res++ {
				for fi, fill := range residues(res) {
					for _, rd := range []string{"ParseInt64", "ParsePointer"} {
						buf := append(enc64(v, be), fill...)
						p := parser.NewParser(buf)
						p.SetBigEndian(be)
						var got int64
						pn := guard(func() {
							if rd == "ParseInt64" {
								got = p.ParseInt64()
							} else {
								got = p.ParsePointer()
							}
						})
						r.Eval(1)
						c := rcase{R: fmt.Sprintf("%s/be=%v", rd, be), V: fmt.Sprintf("%#x", v), Residue: res, Fill: fmt.Sprint(fi)}
						if pn != nil {
							r.Violate("reader/"+rd+"/panic", fmt.Sprint(pn), c)
							continue
						}
						if uint64(got) != v {
							c.Got, c.Want = fmt.Sprintf("%#x", uint64(got)), fmt.Sprintf("%#x", v)
							r.Violate(fmt.Sprintf("reader/int64-value/residue=%s", resClass(res, 8)), rd+" returns a wrong value when followed by trailing bytes", c)
						} else if p.Length() != res || !bytes.Equal(p.Buffer(), fill) {
							r.Violate("reader/int64-cursor", "cursor did not advance by 8", c)
						}
						r.Outcome(fmt.Sprintf("i64 ok res%%8=%d", res%8))
					}
				}
			}
		}
		// byte strings
		for _, s := range byteStrings() {
			for res := 0; res <= maxRes; res++ {
				for fi, fill := range residues(res) {
					buf := append(enc32(uint32(len(s)), be), s...)
					buf = append(buf, fill...)
					p := parser.NewParser(buf)
					p.SetBigEndian(be)
					var got []byte
					pn := guard(func() { got = p.ParseBytes() })
					r.Eval(1)
					c := rcase{R: fmt.Sprintf("ParseBytes/be=%v", be), V: fmt.Sprintf("%x", s), Residue: res, Fill: fmt.Sprint(fi)}
					if pn != nil {
						r.Violate("reader/ParseBytes/panic", fmt.Sprint(pn), c)
						continue
					}
					if !bytes.Equal(got, s) {
						c.Got, c.Want = fmt.Sprintf("%x", got), fmt.Sprintf("%x", s)
						r.Violate(fmt.Sprintf("reader/bytes-value/residue=%s", resClass(res, 4)), "ParseBytes returns wrong bytes", c)
					} else if p.Length() != res || !bytes.Equal(p.Buffer(), fill) {
						r.Violate("reader/bytes-cursor", "cursor did not advance by 4+len", c)
					}
					r.Outcome(fmt.Sprintf("bytes ok len=%d", len(s)))

					// ParseString: a C string (no embedded NUL), sent without or with its
					// terminator; the text must come out without the terminator.
					if cs, ok := cString(s); ok {
						p = parser.NewParser(append(append(enc32(uint32(len(s)), be), s...), fill...))
						p.SetBigEndian(be)
						var gs string
						pn = guard(func() { gs = p.ParseString() })
						r.Eval(1)
						c.R = fmt.Sprintf("ParseString/be=%v", be)
						if pn != nil {
							r.Violate("reader/ParseString/panic", fmt.Sprint(pn), c)
						} else if gs != cs {
							c.Got, c.Want = fmt.Sprintf("%q", gs), fmt.Sprintf("%q", cs)
							r.Violate(fmt.Sprintf("reader/string-value/residue=%s", resClass(res, 4)), "ParseString returns wrong text", c)
						} else if p.Length() != res || !bytes.Equal(p.Buffer(), fill) {
							r.Violate("reader/string-cursor", "cursor did not advance by 4+len, or the bytes behind the field were altered", c)
						}
					}
					// ParseAtLeastBytes(n) with n = len(s)
					p = parser.NewParser(append(append([]byte{}, s...), fill...))
					var ga []byte
					pn = guard(func() { ga = p.ParseAtLeastBytes(len(s)) })
					r.Eval(1)
					c.R = "ParseAtLeastBytes"
					if pn != nil {
						r.Violate("reader/ParseAtLeastBytes/panic", fmt.Sprint(pn), c)
					} else if !bytes.Equal(ga, s) || p.Length() != res || !bytes.Equal(p.Buffer(), fill) {
						r.Violate("reader/atleast-value", "ParseAtLeastBytes returns wrong bytes or cursor", c)
					}
				}
			}
		}
		// UTF-16
		for _, wc := range wstrings() {
			for res := 0; res <= maxRes; res++ {
				for fi, fill := range residues(res) {
					w := &demonwire.W{}
					w.WStrUnits(wc.units)
					body := w.B[4:]
					buf := append(enc32(uint32(len(body)), be), body...)
					buf = append(buf, fill...)
					p := parser.NewParser(buf)
					p.SetBigEndian(be)
					var gs string
					pn := guard(func() { gs = p.ParseUTF16String() })
					r.Eval(1)
					c := rcase{R: fmt.Sprintf("ParseUTF16String/be=%v", be), V: wc.name, Residue: res, Fill: fmt.Sprint(fi)}
					if pn != nil {
						r.Violate("reader/ParseUTF16String/panic/"+ev.Normalize(fmt.Sprint(pn)), fmt.Sprint(pn), c)
						continue
					}
					want := wantString(wc.units)
					if gs != want {
						c.Got, c.Want = fmt.Sprintf("%+q", gs), fmt.Sprintf("%+q", want)
						sig := "reader/utf16-value/" + wc.name
						if res > 0 {
							sig = fmt.Sprintf("reader/utf16-value/residue=%s/%s", resClass(res, 4), wc.name)
						}
						r.Violate(sig, "ParseUTF16String does not return the text that was sent", c)
					} else if p.Length() != res || !bytes.Equal(p.Buffer(), fill) {
						r.Violate("reader/utf16-cursor", "cursor did not advance by 4+len, or the bytes behind the field were altered", c)
					}
					r.Outcome("utf16 " + wc.name)
				}
			}
		}
	}
	// odd-length UTF-16 byte strings (a truncated or hostile field): must not panic, and
	// whatever follows the field in the packet must still be there, byte for byte, for the
	// next reader ("come out unchanged whatever follows them")
	for n := 1; n <= 7; n += 2 {
		for res := 0; res <= maxRes; res++ {
			for fi, fill := range residues(res) {
				body := bytes.Repeat([]byte{0x41}, n)
				buf := append(append(enc32(uint32(n), true), body...), fill...)
				p := parser.NewParser(buf)
				pn := guard(func() { p.ParseUTF16String() })
				r.Eval(1)
				c := rcase{R: "ParseUTF16String", V: fmt.Sprintf("odd length %d", n), Residue: res, Fill: fmt.Sprint(fi)}
				if pn != nil {
					r.Violate("reader/ParseUTF16String/panic/odd-length", fmt.Sprint(pn), c)
					continue
				}
				if p.Length() != res || !bytes.Equal(p.Buffer(), fill) {
					c.Got, c.Want = fmt.Sprintf("%x", p.Buffer()), fmt.Sprintf("%x", fill)
					r.Violate("reader/utf16-odd-length/bytes-behind-the-field-altered", "after an odd-length UTF-16 field the rest of the packet is not what was sent", c)
				}
			}
		}
	}
	runCanIRead(r)
}

// cString reports whether s is a C string as the Demon sends it: no NUL except at most
// one trailing terminator; it returns the text without the terminator.
func cString(s []byte) (string, bool) {
	if len(s) > 0 && s[len(s)-1] == 0 {
		s = s[:len(s)-1]
	}
	if bytes.IndexByte(s, 0) >= 0 {
		return "", false
	}
	return string(s), true
}

func resClass(res, width int) string {
	if res == 0 {
		return "0"
	}
	if res < width {
		return fmt.Sprintf("1..%d", width-1)
	}
	return fmt.Sprintf(">=%d", width)
}

func enc32(v uint32, be bool) []byte {
	if be {
		return []byte{byte(v >> 24), byte(v >> 16), byte(v >> 8), byte(v)}
	}
	return []byte{byte(v), byte(v >> 8), byte(v >> 16), byte(v >> 24)}
}

func enc64(v uint64, be bool) []byte {
	if be {
		return append(enc32(uint32(v>>32), true), enc32(uint32(v), true)...)
	}
	return append(enc32(uint32(v), false), enc32(uint32(v>>32), false)...)
}

// CanIRead: every type list of length <= 3 × a few field values × every truncation.
func runCanIRead(r *ev.Run) {
	types := []parser.ReadType{parser.ReadInt32, parser.ReadInt64, parser.ReadBytes, parser.ReadPointer, parser.ReadBool}
	names := []string{"i32", "i64", "bytes", "ptr", "bool"}
	bytesLens := []int{0, 1, 5}
	var lists [][]int
	for a := 0; a < 5; a++ {
		lists = append(lists, []int{a})
		for b := 0; b < 5; b++ {
			lists = append(lists, []int{a, b})
			for c := 0; c < 5; c++ {
				lists = append(lists, []int{a, b, c})
			}
		}
	}
	lists = append(lists, []int{})
	for _, be := range []bool{true, false} {
		for _, l := range lists {
			// choose bytes lengths: all combos for the bytes fields in the list
			nb := 0
			for _, t := range l {
				if t == 2 {
					nb++
				}
			}
			combos := 1
			for i := 0; i < nb; i++ {
				combos *= len(bytesLens)
			}
			for k := 0; k < combos; k++ {
				var buf []byte
				var rt []parser.ReadType
				x := k
				desc := ""
				for _, t := range l {
					rt = append(rt, types[t])
					desc += names[t] + " "
					switch t {
					case 0, 4:
						buf = append(buf, enc32(7, be)...)
					case 1, 3:
						buf = append(buf, enc64(7, be)...)
					case 2:
						n := bytesLens[x%len(bytesLens)]
						x /= len(bytesLens)
						buf = append(buf, enc32(uint32(n), be)...)
						buf = append(buf, bytes.Repeat([]byte{0x42}, n)...)
						desc += fmt.Sprintf("(%d) ", n)
					}
				}
				for extra := 0; extra <= 2; extra++ {
					full := append(append([]byte{}, buf...), bytes.Repeat([]byte{0xEE}, extra)...)
					for cut := 0; cut <= len(full); cut++ {
						p := parser.NewParser(full[:cut])
						p.SetBigEndian(be)
						var got bool
						pn := guard(func() { got = p.CanIRead(rt) })
						r.Eval(1)
						want := cut >= len(buf)
						c := map[string]any{"types": desc, "be": be, "bytes_present": cut, "bytes_needed": len(buf), "got": got, "want": want}
						if pn != nil {
							r.Violate("canread/panic/"+ev.Normalize(fmt.Sprint(pn)), fmt.Sprint(pn), c)
							continue
						}
						if got != want {
							r.Violate(fmt.Sprintf("canread/mismatch/got=%v", got), "CanIRead disagrees with the presence of all fields", c)
						}
						if p.Length() != cut {
							r.Violate("canread/consumes", "CanIRead moved the cursor", c)
						}
						r.Outcome(fmt.Sprintf("canread %v", got))
					}
				}
			}
		}
	}
}
